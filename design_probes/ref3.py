from common import *
import numpy as np, itertools, math
torch.set_num_threads(1)
def rot(axis, ang):
    axis=torch.tensor(axis,dtype=torch.float64); axis/=axis.norm()
    K=torch.tensor([[0,-axis[2],axis[1]],[axis[2],0,-axis[0]],[-axis[1],axis[0],0]])
    return torch.eye(3)+math.sin(ang)*K+(1-math.cos(ang))*K@K
R=rot([1,2,3],0.7)
ch2o=(torch.tensor([[0.0,0,0],[1.22,0,0],[1.82,0.94,0],[1.82,-0.94,0]])@R.T)
sp=[[8,6,1,1]]
for meth in ["cis","rpa"]:
    mol,es=run(sp,[ch2o.tolist()],eps=1e-10,extra={"excited_states":{"n_states":6,"method":meth,"tolerance":1e-8}})
    idx=[(0,0),(1,0),(1,1),(2,0),(2,1),(2,2),(3,0),(3,1),(3,2),(3,3)]
    nat=4; nao=4*nat
    G=np.zeros((nao,nao,nao,nao))
    p=mol.parameters; Z=mol.Z.tolist()
    w=mol.w.detach().numpy()
    for a in range(nat):
        gss,gsp,gpp,gp2,hsp=[p[k][a].item() for k in ["g_ss","g_sp","g_pp","g_p2","h_sp"]]
        o=4*a
        G[o,o,o,o]=gss
        for i in range(1,4):
            G[o,o,o+i,o+i]=G[o+i,o+i,o,o]=gsp
            for (x,y,z,t) in [(o,o+i,o,o+i),(o,o+i,o+i,o),(o+i,o,o,o+i),(o+i,o,o+i,o)]: G[x,y,z,t]=hsp
            G[o+i,o+i,o+i,o+i]=gpp
            for j in range(1,4):
                if i!=j:
                    G[o+i,o+i,o+j,o+j]=gp2
                    for (x,y,z,t) in [(o+i,o+j,o+i,o+j),(o+i,o+j,o+j,o+i)]: G[x,y,z,t]=0.5*(gpp-gp2)
    for k,(i,j) in enumerate(zip(mol.idxi.tolist(),mol.idxj.tolist())):
        for m,(a,b) in enumerate(idx):
            for n,(c,d) in enumerate(idx):
                v=w[k,m,n]
                for (x,y) in {(a,b),(b,a)}:
                    for (z,t) in {(c,d),(d,c)}:
                        G[4*i+x,4*i+y,4*j+z,4*j+t]=v; G[4*j+z,4*j+t,4*i+x,4*i+y]=v
    # remove H p orbitals: use the repo MO coefficients in packed basis
    C=mol.molecular_orbitals[0].detach().numpy()   # packed (norb,norb)?
    norb=int(mol.norb[0]); nocc=int(mol.nocc[0])
    print("C shape",C.shape,"norb",norb)
    # packed basis ordering: heavy atoms 4 each then hydrogens s
    nH=int(mol.nHeavy[0]); keep=list(range(4*nH))+[4*nH+4*k for k in range(int(mol.nHydro[0]))]
    Gp=G[np.ix_(keep,keep,keep,keep)]
    e=mol.e_mo[0,:norb].detach().numpy()
    Co,Cv=C[:,:nocc],C[:,nocc:norb]
    ovov=np.einsum("mi,na,lj,sb,mnls->iajb",Co,Cv,Co,Cv,Gp,optimize=True)
    oovv=np.einsum("mi,nj,la,sb,mnls->ijab",Co,Co,Cv,Cv,Gp,optimize=True)
    nv=norb-nocc; nov=nocc*nv
    A=(2*ovov-oovv.transpose(0,2,1,3)).reshape(nov,nov)+np.diag((e[None,nocc:]-e[:nocc,None]).reshape(-1))
    B=(2*ovov-ovov.transpose(0,3,2,1)).reshape(nov,nov)
    if meth=="cis": ev=np.linalg.eigvalsh(A)
    else: ev=np.sqrt(np.sort(np.linalg.eigvals((A-B)@(A+B)).real))
    print(meth,"ref",ev[:6]); print(meth,"seqm",mol.cis_energies[0].numpy()); print("max diff %.2e"%np.abs(ev[:6]-mol.cis_energies[0].numpy()).max())
