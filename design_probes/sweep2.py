import sys, os, json, math, time, warnings, io, contextlib
warnings.filterwarnings("ignore")
import numpy as np, torch
torch.set_num_threads(1); torch.set_default_dtype(torch.float64)
sys.path.insert(0,"/tmp/probe"); from common import run
from mols import T, POOL
from sweep1 import quat_rot
IDX=[(0,0),(1,0),(1,1),(2,0),(2,1),(2,2),(3,0),(3,1),(3,2),(3,3)]
def dense(mol):
    nat=int(mol.molsize); nao=4*nat
    G=np.zeros((nao,)*4); p=mol.parameters; w=mol.w.detach().numpy()
    for a in range(nat):
        gss,gsp,gpp,gp2,hsp=[p[k][a].item() for k in ["g_ss","g_sp","g_pp","g_p2","h_sp"]]; o=4*a
        G[o,o,o,o]=gss
        for i in range(1,4):
            G[o,o,o+i,o+i]=G[o+i,o+i,o,o]=gsp
            for (x,y,z,t) in [(o,o+i,o,o+i),(o,o+i,o+i,o),(o+i,o,o,o+i),(o+i,o,o+i,o)]: G[x,y,z,t]=hsp
            G[o+i,o+i,o+i,o+i]=gpp
            for j in range(1,4):
                if i!=j:
                    G[o+i,o+i,o+j,o+j]=gp2
                    for (x,y,z,t) in [(o+i,o+j,o+i,o+j),(o+i,o+j,o+j,o+i)]: G[x,y,z,t]=0.5*(gpp-gp2)
    for k,(i,j) in enumerate(zip(mol.idxi.tolist(),mol.idxj.tolist())):
        for m,(a,b) in enumerate(IDX):
            for n,(c,d) in enumerate(IDX):
                v=w[k,m,n]
                if v==0: continue
                for (x,y) in {(a,b),(b,a)}:
                    for (z,t) in {(c,d),(d,c)}:
                        G[4*i+x,4*i+y,4*j+z,4*j+t]=v; G[4*j+z,4*j+t,4*i+x,4*i+y]=v
    nH=int(mol.nHeavy[0]); keep=list(range(4*nH))+[4*nH+4*k for k in range(int(mol.nHydro[0]))]
    Gp=G[np.ix_(keep,keep,keep,keep)]
    norb=int(mol.norb[0]); nocc=int(mol.nocc[0])
    C=mol.molecular_orbitals[0].detach().numpy(); e=mol.e_mo[0,:norb].detach().numpy()
    Co,Cv=C[:,:nocc],C[:,nocc:norb]
    ovov=np.einsum("mi,na,lj,sb,mnls->iajb",Co,Cv,Co,Cv,Gp,optimize=True)
    oovv=np.einsum("mi,nj,la,sb,mnls->ijab",Co,Co,Cv,Cv,Gp,optimize=True)
    nv=norb-nocc; nov=nocc*nv
    A=(2*ovov-oovv.transpose(0,2,1,3)).reshape(nov,nov)+np.diag((e[None,nocc:]-e[:nocc,None]).reshape(-1))
    B=(2*ovov-ovov.transpose(0,3,2,1)).reshape(nov,nov)
    return A,B,nov
def work(job):
    name,exm,distort=job
    Z,X=T[name]; rng=np.random.default_rng(sum(map(ord,name))*7+int(distort*100))
    X=np.array(X)+rng.uniform(-distort,distort,size=(len(Z),3)); X=X@quat_rot(rng.normal(size=4)).T
    out={"mol":name,"meth":exm,"distort":distort}
    t=time.time()
    try:
        m0,_=run([Z],[X.tolist()],eps=1e-10)
        nov=int(m0.nocc[0])*(int(m0.norb[0])-int(m0.nocc[0])); n=min(nov,8)
        if n<1: out["skip"]=True; return out
        tol=1e-7
        m,es=run([Z],[X.tolist()],eps=1e-10,extra={"excited_states":{"n_states":n,"method":exm,"tolerance":tol}})
        A,B,nov=dense(m)
        if exm=="cis": ev,vec=np.linalg.eigh(A); 
        else: ev=np.sqrt(np.sort(np.linalg.eigvals((A-B)@(A+B)).real))
        got=m.cis_energies[0].numpy()
        out.update(n=n,nov=nov,maxdiff=float(np.abs(got-ev[:n]).max()),sorted=bool((np.diff(got)>=-1e-12).all()),min=float(got.min()),
                   degenerate=bool((np.diff(ev[:n+1])<1e-6).any()))
        if exm=="cis":
            Xa=m.cis_amplitudes[0].numpy(); out["orth"]=float(np.abs(Xa@Xa.T-np.eye(n)).max()); out["resid"]=float(np.abs(Xa@A-got[:,None]*Xa).max())
        else:
            evc=np.linalg.eigvalsh(A); out["rpa_le_cis"]=bool((got<=evc[:n]+1e-9).all())
    except Exception as e: out["exc"]=type(e).__name__+": "+str(e)[:150]
    out["t"]=time.time()-t
    return out
if __name__=="__main__":
    from multiprocessing import Pool
    names=[k for k,(Z,X) in T.items() if set(Z)<=POOL["AM1"] and len(Z)<=8]
    jobs=[(k,exm,dis) for k in names for exm in ("cis","rpa") for dis in (0.0,0.05)]
    print(len(jobs),"jobs",flush=True)
    with Pool(16) as p: res=p.map(work,jobs,chunksize=1)
    json.dump(res,open("sweep2.json","w"))
    for r in res:
        if "exc" in r: print("EXC",r["mol"],r["meth"],r["distort"],r["exc"]); continue
        if r.get("skip"): continue
        flag=[]
        if r["maxdiff"]>1e-6: flag.append("maxdiff %.2e"%r["maxdiff"])
        if not r["sorted"]: flag.append("unsorted")
        if r["min"]<=0: flag.append("nonpositive %.3f"%r["min"])
        if r["meth"]=="cis" and (r["orth"]>1e-6 or r["resid"]>1e-5): flag.append("orth %.1e resid %.1e"%(r["orth"],r["resid"]))
        if r["meth"]=="rpa" and not r["rpa_le_cis"]: flag.append("rpa>cis")
        if flag: print(r["mol"],r["meth"],r["distort"],"n",r["n"],"nov",r["nov"],"deg",r["degenerate"]," ".join(flag))
    ok=[r for r in res if "maxdiff" in r]
    print("n ok",len(ok),"degenerate cases",sum(r["degenerate"] for r in ok),"median maxdiff %.1e"%np.median([r["maxdiff"] for r in ok]),"max t %.1f"%max(r["t"] for r in res))
