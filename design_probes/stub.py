import warnings; warnings.filterwarnings("ignore")
import torch, io, contextlib, time, h5py, numpy as np
torch.set_num_threads(1); torch.set_default_dtype(torch.float64)
from types import SimpleNamespace
from seqm.seqm_functions.constants import Constants
from seqm.Molecule import Molecule
from seqm.MolecularDynamics import Molecular_Dynamics_Basic, Molecular_Dynamics_Langevin
class StubES(torch.nn.Module):
    """harmonic pair potential E = sum_{i<j real} k/2 (r_ij - r0_ij)^2, translation/rotation invariant"""
    def __init__(self, ref_coords, species, k=20.0):
        super().__init__()
        self.dummy=torch.nn.Parameter(torch.zeros(1),requires_grad=False)
        self.real=(species>0)
        self.r0=torch.cdist(ref_coords,ref_coords)
        self.k=k
        self.conservative_force=SimpleNamespace(energy=SimpleNamespace(md=False,excited_states=None))
        self.ncalls=0
    def forward(self, molecule, *a, **kw):
        self.ncalls+=1
        x=molecule.coordinates.detach().clone().requires_grad_(True)
        d=torch.cdist(x,x)
        m=(self.real.unsqueeze(1)&self.real.unsqueeze(2))&~torch.eye(x.shape[1],dtype=torch.bool)
        E=(0.25*self.k*((d-self.r0)**2)*m).sum(dim=(1,2))
        F=-torch.autograd.grad(E.sum(),x)[0]
        molecule.force=F.detach(); molecule.Etot=E.detach(); molecule.dm=None
        molecule.dipole=torch.zeros(x.shape[0],3); molecule.e_gap=torch.zeros(x.shape[0]); molecule.q=torch.zeros(x.shape[:2])
sp=torch.tensor([[8,1,1,0],[6,1,1,1]]); xyz=torch.tensor([[[0.0,0.0,0.0],[0.96,0.0,0.1],[-0.24,0.93,0.05],[5.,5.,5.]],[[0,0,0],[0.63,0.63,0.63],[-0.63,-0.63,0.63],[-0.63,0.63,-0.63]]])
s={"method":"AM1","scf_eps":1e-8,"scf_converger":[1]}
out={"molid":[0,1],"prefix":"md5/r","print every":0,"xyz":2,"checkpoint every":50,"h5":{"data":1,"coordinates":1,"velocities":1,"forces":1}}
# mol 0 charge: CH3 is odd-electron -> use charges [0,-1]?? species row1 = CH3 -> odd; give charge +1
mol=Molecule(Constants(),s,xyz.clone(),sp,charges=torch.tensor([0,1]))
md=Molecular_Dynamics_Langevin(damp=20.0,seqm_parameters=s,Temp=300.0,timestep=0.5,output=out)
md.esdriver=StubES(xyz.clone(),sp)
t=time.time()
with contextlib.redirect_stdout(io.StringIO()): md.run(mol,steps=5000,seed=1)
print("5000 steps in %.2fs, calls %d"%(time.time()-t, md.esdriver.ncalls))
with h5py.File("md5/r.0.h5") as f:
    T=f["data/thermo/T"][...]; print("mean T (mol0, 3 atoms -> 9 dof)",T[500:].mean(), "n",len(T))
with h5py.File("md5/r.1.h5") as f:
    T=f["data/thermo/T"][...]; print("mean T (mol1)",T[500:].mean())
