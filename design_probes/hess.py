import sys, warnings, io, contextlib; warnings.filterwarnings("ignore")
import numpy as np, torch, time
torch.set_num_threads(1); torch.set_default_dtype(torch.float64)
from seqm.seqm_functions.constants import Constants
from seqm.Molecule import Molecule
from seqm.basics import Energy
sys.path.insert(0,"/tmp/probe"); from common import run
from sweep1 import quat_rot
rng=np.random.default_rng(3)
X=np.array([[0.0,0.0,0.0],[0.96,0.0,0.0],[-0.24,0.93,0.0]])@quat_rot(rng.normal(size=4)).T
Z=[8,1,1]
for conv in ([0,0.2],[1],[2]):
    s={"method":"AM1","scf_eps":1e-11,"scf_converger":conv,"scf_backward":2}
    t=time.time()
    with contextlib.redirect_stdout(io.StringIO()):
        mol=Molecule(Constants(),s,torch.tensor([X]),torch.tensor([Z]))
        en=Energy(s)
        Hf,Etot,*_=en(mol,all_terms=True)
        g=torch.autograd.grad(Etot.sum(),mol.coordinates,create_graph=True)[0].reshape(-1)
        H=torch.stack([torch.autograd.grad(g[i],mol.coordinates,retain_graph=True)[0].reshape(-1) for i in range(9)])
    H=H.numpy()
    # FD of forces
    Hfd=np.zeros((9,9)); h=1e-4
    for i in range(9):
        d=np.zeros(9); d[i]=h
        Fp=run([Z],[(X+d.reshape(3,3)).tolist()],eps=1e-11)[0].force[0].numpy().reshape(-1)
        Fm=run([Z],[(X-d.reshape(3,3)).tolist()],eps=1e-11)[0].force[0].numpy().reshape(-1)
        Hfd[i]=-(Fp-Fm)/(2*h)
    print("conv",conv,"asym %.2e"%np.abs(H-H.T).max(),"|H-Hfd| %.2e"%np.abs(H-Hfd).max(),"|H| %.1f"%np.abs(H).max(),"time %.1f"%(time.time()-t))
