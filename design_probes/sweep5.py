import sys, os, json, math, time, warnings
warnings.filterwarnings("ignore")
import numpy as np, torch
torch.set_num_threads(1); torch.set_default_dtype(torch.float64)
sys.path.insert(0,"/tmp/probe"); from common import run
from mols import T, POOL, IONS
from sweep1 import quat_rot
import refnddo as R
from seqm.seqm_functions.hcore import hcore
def work(job):
    meth,name,seed=job
    if name in T: (Z,X),ch=T[name],0
    else: (Z,X),ch=IONS[name]
    rng=np.random.default_rng(seed)
    X=np.array(X)+rng.uniform(-0.05,0.05,size=(len(Z),3)); X=X@quat_rot(rng.normal(size=4)).T+rng.uniform(-2,2,size=3)
    out={"method":meth,"mol":name}
    t=time.time()
    try:
        m,es=run([Z],[X.tolist()],method=meth,eps=1e-10,charges=torch.tensor([ch]))
        mod=R.Model(meth,Z,X)
        P=mod.from_seqm_P(m.dm[0].numpy())
        out["dEelec"]=float(abs(mod.eelec(P)-m.Eelec[0].item())); out["dEnuc"]=float(abs(mod.enuc()-m.Enuc[0].item()))
        out["dEiso"]=float(abs(mod.eiso()-m.Eiso[0].item())); out["dHf"]=float(abs((m.Etot[0].item()-mod.eiso()+mod.eheat())-m.Hf[0].item()))
        # Hcore and Fock element-wise
        with torch.no_grad(): M,w,*_=hcore(m)
        nat=len(Z); Hs=M.reshape(nat,nat,4,4).transpose(1,2).reshape(4*nat,4*nat).numpy(); Hs=np.triu(Hs)+np.triu(Hs,1).T
        out["dH"]=float(np.abs(mod.from_seqm_P(Hs)-mod.H).max())
        if len(Z)<=5:
            E,Pr,e,ok=mod.scf(ch)
            out["scf_ok"]=ok; out["dEscf"]=float(abs(E+mod.enuc()-m.Etot[0].item())); out["dP"]=float(np.abs(Pr-P).max())
            norb=mod.nao; out["de_mo"]=float(np.abs(np.sort(e)-m.e_mo[0,:norb].numpy()).max())
    except Exception as e:
        import traceback; out["exc"]=type(e).__name__+": "+str(e)[:150]+" @ "+traceback.format_exc().splitlines()[-2][:100]
    out["t"]=time.time()-t
    return out
if __name__=="__main__":
    from multiprocessing import Pool
    rng=np.random.default_rng(11)
    jobs=[(meth,name,int(rng.integers(1e9))) for meth in ("MNDO","AM1","PM3") for name,(Z,X) in T.items() if set(Z)<=POOL[meth]]
    jobs+=[(meth,name,int(rng.integers(1e9))) for meth in ("MNDO","AM1","PM3") for name,((Z,X),c) in IONS.items() if set(Z)<=POOL[meth]]
    print(len(jobs),"jobs",flush=True)
    with Pool(16) as p: res=p.map(work,jobs,chunksize=1)
    json.dump(res,open("sweep5.json","w"))
    mx={}
    for r in res:
        if "exc" in r: print("EXC",r["method"],r["mol"],r["exc"]); continue
        flag=[f"{k} {r[k]:.2e}" for k in ("dEelec","dEnuc","dEiso","dHf","dH","dEscf","de_mo") if k in r and r[k]>1e-6]
        if "scf_ok" in r and not r["scf_ok"]: flag.append("refSCF-notconv")
        if flag: print(r["method"],r["mol"]," ".join(flag))
        for k in ("dEelec","dEnuc","dEiso","dHf","dH","dEscf","dP","de_mo"):
            if k in r: mx[k]=max(mx.get(k,0),r[k])
    print("maxima",{k:"%.2e"%v for k,v in mx.items()},"max t %.1f"%max(r["t"] for r in res))
