import sys, warnings, io, contextlib, json; warnings.filterwarnings("ignore")
import numpy as np, torch, h5py
torch.set_num_threads(1); torch.set_default_dtype(torch.float64)
from seqm.seqm_functions.constants import Constants
from seqm.Molecule import Molecule
import seqm.MolecularDynamics as MD
def go(args):
    eng,k,dt,T=args
    sp=torch.tensor([[8,1,1]]); xyz=torch.tensor([[[0.0,0.0,0.0],[0.96,0.0,0.1],[-0.24,0.93,0.05]]])
    g=torch.Generator().manual_seed(5); v=torch.randn(1,3,3,generator=g)*torch.tensor([0.003,0.012,0.012])[None,:,None]
    s={"method":"AM1","scf_eps":1e-10,"scf_converger":[1]}
    n=int(round(T/dt)); tag=f"mdxl/{eng}_{k}_{dt}"
    out={"molid":[0],"prefix":tag,"print every":0,"xyz":0,"checkpoint every":0,"h5":{"data":1,"coordinates":1,"velocities":1}}
    with contextlib.redirect_stdout(io.StringIO()):
        mol=Molecule(Constants(),s,xyz.clone(),sp); mol.velocities=v.clone()
        if eng=="bomd": md=MD.Molecular_Dynamics_Basic(seqm_parameters=s,Temp=300.0,timestep=dt,output=out)
        elif eng=="xl": md=MD.XL_BOMD(xl_bomd_params={"k":k},seqm_parameters=s,Temp=300.0,timestep=dt,output=out)
        else: md=MD.KSA_XL_BOMD(xl_bomd_params={"k":k,"max_rank":2,"err_threshold":0.0,"T_el":1500},seqm_parameters=s,Temp=300.0,timestep=dt,output=out)
        md.run(mol,steps=n)
    with h5py.File(tag+".0.h5") as f:
        E=f["data/thermo/Ek"][...]+f["data/thermo/Ep"][...]; x=f["coordinates/values"][...]
    return (eng,k,dt,float(E.max()-E.min()),float(E[-1]-E[0]),x[-1].tolist())
if __name__=="__main__":
    from multiprocessing import Pool
    T=12.0
    jobs=[("bomd",0,dt,T) for dt in (0.4,0.2,0.1)]+[(e,k,dt,T) for e in ("xl","ksa") for k in range(3,10) for dt in (0.4,0.2,0.1)]
    with Pool(16) as p: res=p.map(go,jobs,chunksize=1)
    R={(e,k,dt):(fl,dr,np.array(x)) for e,k,dt,fl,dr,x in res}
    xb={dt:R[("bomd",0,dt)][2] for dt in (0.4,0.2,0.1)}
    print("bomd fluct",[ "%.2e"%R[("bomd",0,dt)][0] for dt in (0.4,0.2,0.1)])
    for e in ("xl","ksa"):
        for k in range(3,10):
            fl=[R[(e,k,dt)][0] for dt in (0.4,0.2,0.1)]; dr=[R[(e,k,dt)][1] for dt in (0.4,0.2,0.1)]
            dx=[float(np.abs(R[(e,k,dt)][2]-xb[dt]).max()) for dt in (0.4,0.2,0.1)]
            print(e,k,"fluct",["%.2e"%x for x in fl],"ratios %.1f %.1f"%(fl[0]/fl[1],fl[1]/fl[2]),"| drift",["%.1e"%x for x in dr],"| |x_XL-x_BO| same dt",["%.1e"%x for x in dx])
