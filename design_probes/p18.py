import warnings; warnings.filterwarnings("ignore")
import numpy as np, torch
torch.set_default_dtype(torch.float64)
from seqm.MolecularDynamics import XL_BOMD, KSA_XL_BOMD
s={"method":"AM1","scf_eps":1e-8,"scf_converger":[1],"elements":[0,1,8]}
out={"molid":[0],"prefix":"x","print every":0,"xyz":0,"checkpoint every":0,"h5":{}}
for cls,scale in [(XL_BOMD,0.95),(KSA_XL_BOMD,1.0)]:
  for k in range(3,10):
    md=cls(xl_bomd_params={"k":k},seqm_parameters=dict(s),Temp=300.0,timestep=0.5,output=dict(out))
    c=md.coeff[:k+1].numpy().copy(); kD=md.coeff_D
    # P(n+1)= kD*(s*D+(1-s)*P(n)) + sum_j c_j P(n-j);  D = P* + (1-g)(P-P*)  -> delta(n+1) = [kD*(s*(1-g)+(1-s)) + c0] delta(n) + sum_{j>=1} c_j delta(n-j)
    # KSA: P_new = kD*(dP2dt2 + P) + sum c_j Pt ; dP2dt2 ~ -(g)(P-P*) kernel-exact => g=1.. use same model with s=1
    worst=0; worst_g=None; fp=abs(kD+c.sum()-1)
    for g in np.linspace(0,1,2001):
        a0=kD*(scale*(1-g)+(1-scale))+c[0]
        poly=np.concatenate([[1.0,-a0],-c[1:]])
        r=np.abs(np.roots(poly)).max()
        if g>0 and r>worst: worst=r; worst_g=g
    print(cls.__name__,k,"fixed-point defect %.1e"%fp,"max|root| over g in (0,1]: %.6f at g=%.3f"%(worst,worst_g))
print("---- precision")
import mpmath as mp
mp.mp.dps=40
for k in range(3,10):
    md=XL_BOMD(xl_bomd_params={"k":k},seqm_parameters=dict(s),Temp=300.0,timestep=0.5,output=dict(out))
    c=[mp.mpf(float(x)) for x in md.coeff[:k+1].numpy()]; kD=mp.mpf(md.coeff_D)
    res=[]
    for g in [1e-4,1e-3,1e-2,0.05,0.2,0.5,1.0]:
        a0=kD*(mp.mpf(0.95)*(1-g)+mp.mpf(0.05))+c[0]
        poly=[mp.mpf(1),-a0]+[-x for x in c[1:]]
        r=max(abs(z) for z in mp.polyroots(poly,maxsteps=500,extraprec=200))
        res.append("%.2e"%float(r-1))
    print(k,"max|root|-1 at g=1e-4..1:",res)
