import sys, os, warnings; warnings.filterwarnings("ignore")
import torch; torch.set_num_threads(1); torch.set_default_dtype(torch.float64)
import io, contextlib
from seqm.seqm_functions.constants import Constants
from seqm.Molecule import Molecule
from seqm.MolecularDynamics import Molecular_Dynamics_Basic
mode,prefix,crash_step,kind=sys.argv[1],sys.argv[2],int(sys.argv[3]),sys.argv[4]
class Boom(Exception): pass
orig=Molecular_Dynamics_Basic._do_integrator_step
def wrapped(self,i,*a,**k):
    if i==crash_step:
        if kind=="hard": os._exit(137)
        raise Boom()
    return orig(self,i,*a,**k)
Molecular_Dynamics_Basic._do_integrator_step=wrapped
if mode=="fresh":
    sp=torch.tensor([[8,1,1]]); xyz=torch.tensor([[[0.0,0.0,0.0],[0.96,0.0,0.1],[-0.24,0.93,0.05]]])
    s={"method":"AM1","scf_eps":1e-9,"scf_converger":[1]}
    out={"molid":[0],"prefix":prefix,"print every":0,"xyz":1,"checkpoint every":3,"h5":{"data":1,"coordinates":1,"velocities":2,"forces":1}}
    mol=Molecule(Constants(),s,xyz,sp)
    md=Molecular_Dynamics_Basic(seqm_parameters=s,Temp=300.0,timestep=0.5,output=out)
    try:
        with contextlib.redirect_stdout(io.StringIO()): md.run(mol,steps=8,seed=3)
    except Boom: sys.exit(3)
else:
    try:
        with contextlib.redirect_stdout(io.StringIO()): Molecular_Dynamics_Basic.run_from_checkpoint(prefix+".restart.pt")
    except Boom: sys.exit(3)
