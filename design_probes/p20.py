from common import *
import sys, time
torch.set_num_threads(1)
import seqm.seqm_functions.SP2 as SP2mod
class IterationBoundExceeded(BaseException): pass
class LoopMonitor:
    def __init__(self, targets, bound):
        # targets: {code_object: set(line numbers of loop headers)}
        self.targets=targets; self.bound=bound; self.counts={}; self.maxcount={}
    def _global(self, frame, event, arg):
        if event=="call" and frame.f_code in self.targets:
            self.counts[id(frame)]=0
            return self._local
        return None
    def _local(self, frame, event, arg):
        if event=="line" and frame.f_lineno in self.targets[frame.f_code]:
            c=self.counts[id(frame)]=self.counts.get(id(frame),0)+1
            name=frame.f_code.co_name; self.maxcount[name]=max(self.maxcount.get(name,0),c)
            if c>self.bound: raise IterationBoundExceeded(f"{name} exceeded {self.bound} loop iterations")
        elif event=="return": self.counts.pop(id(frame),None)
        return self._local
    def __enter__(self): sys.settrace(self._global); return self
    def __exit__(self,*a): sys.settrace(None)
import inspect
src,start=inspect.getsourcelines(SP2mod.SP2)
loop_line=[start+i for i,l in enumerate(src) if l.strip().startswith("while notconverged.any()")]
print("loop line",loop_line)
mon=LoopMonitor({SP2mod.SP2.__code__:set(loop_line)},bound=2000)
w=[[0.0,0.0,0.0],[0.96,0.0,0.1],[-0.24,0.93,0.05]]
ch4=[[0,0,0],[0.63,0.63,0.63],[-0.63,-0.63,0.63],[-0.63,0.63,-0.63],[0.63,-0.63,-0.63]]
pad=[0,0,0]
t=time.time()
with mon: run([[8,1,1]],[w],sp2=[True,1e-6])
print("normal: max iters",mon.maxcount,"time %.2f"%(time.time()-t))
t=time.time(); run([[8,1,1]],[w],sp2=[True,1e-6]); print("untraced time %.2f"%(time.time()-t))
t=time.time()
try:
    with mon: run([[6,1,1,1,1],[8,1,0,0,0]],[ch4,[[0,0,0],[0.96,0,0.1],pad,pad,pad]],sp2=[True,1e-5],charges=torch.tensor([0,-1]))
    print("returned")
except IterationBoundExceeded as e: print("DETECTED:",e,"in %.2fs"%(time.time()-t))
