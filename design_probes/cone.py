import sys, warnings; warnings.filterwarnings("ignore")
import numpy as np, torch, math
torch.set_num_threads(1); torch.set_default_dtype(torch.float64)
sys.path.insert(0,"/tmp/probe"); from common import run
from mols import T
from sweep1 import quat_rot
def align(u,target):
    u=u/np.linalg.norm(u); t=np.array(target,float); v=np.cross(u,t); c=u@t
    if np.linalg.norm(v)<1e-12:
        if c>0: return np.eye(3)
        a=np.eye(3)[np.argmin(np.abs(u))]; a=a-(a@u)*u; a/=np.linalg.norm(a); return 2*np.outer(a,a)-np.eye(3)
    K=np.array([[0,-v[2],v[1]],[v[2],0,-v[0]],[-v[1],v[0],0]]); return np.eye(3)+K+K@K/(1+c)
rng=np.random.default_rng(0)
for meth,name,pairs in [("AM1","H2O",[(0,1)]),("AM1","SO2",[(0,1)]),("PM6","SO2",[(0,1),(1,2)]),("PM6","H2S",[(0,1)]),("PM6","HCl",[(0,1)]),("PM6","H2O",[(0,1)]),("PM6_SP","CH3Cl",[(0,1),(1,2)]),("AM1","C2H4",[(0,1),(0,2),(2,3)])]:
    Z,X=T[name]; X=np.array(X)+rng.uniform(-0.03,0.03,size=(len(Z),3))
    for (i,j) in pairs:
        row=[]
        for tgt,lab in [((1,0,0),"+x"),((-1,0,0),"-x"),((0,1,0),"+y"),((0,-1,0),"-y"),((0,0,1),"+z"),((0,0,-1),"-z")]:
            Rm=align(X[j]-X[i],tgt); Xr=X@Rm.T
            # extra random twist about the target axis
            m,es=run([Z],[Xr.tolist()],method=meth,eps=1e-10)
            F=m.force[0].numpy(); tq=np.abs(np.cross(Xr,F).sum(0)).max()
            row.append(f"{lab}:{'BAD %.1e'%tq if tq>1e-5 else 'ok'}")
        print(f"{meth:6s} {name:5s} pair i={i}(Z={Z[i]})->j={j}(Z={Z[j]}): "+"  ".join(row))
