import sys, warnings; warnings.filterwarnings("ignore")
import numpy as np, torch
torch.set_num_threads(1); torch.set_default_dtype(torch.float64)
sys.path.insert(0,"/tmp/probe"); from common import run
from mols import T
from sweep2 import dense, quat_rot
np.set_printoptions(precision=5,suppress=True,linewidth=200)
for name in ["C2H6","AlCl3","CH4"]:
    Z,X=T[name]; rng=np.random.default_rng(sum(map(ord,name))*7+0)
    X=np.array(X)+rng.uniform(-0.0,0.0,size=(len(Z),3)); X=X@quat_rot(rng.normal(size=4)).T
    for n in (4,8,12):
        for tol in (1e-6,1e-8):
            m,es=run([Z],[X.tolist()],eps=1e-10,extra={"excited_states":{"n_states":n,"method":"cis","tolerance":tol}})
            A,B,nov=dense(m); ev=np.linalg.eigvalsh(A); got=m.cis_energies[0].numpy()
            k=len(got)
            Xa=m.cis_amplitudes[0].numpy()
            resid=np.abs(Xa@A-got[:,None]*Xa).max(axis=1)
            print(name,"n",n,"tol",tol,"returned",k)
            print("   got",got); print("   ref",ev[:k+2]); print("   resid",resid)
