import subprocess, json, random
from multiprocessing.pool import ThreadPool
py="/venv/bin/python"
names=["water_am1","ch4_pm3_pulay","h2co_cis","ch3_uhf","so2_pm6","water_sp2","nh3_bw1","nh3_bw2","hf_pm6sp_anal","water_rpa","md_xl","bad"]
def run(seq):
    r=subprocess.run([py,"hist.py",",".join(seq)],capture_output=True,text=True,env={"PYTHONHASHSEED":"0","PATH":"/usr/bin:/bin","PYTHONWARNINGS":"ignore"})
    try: return json.loads(r.stdout.strip().splitlines()[-1])
    except Exception: return [("ERR",r.stderr[-500:])]
with ThreadPool(16) as tp:
    fresh=dict(x[0] for x in tp.map(lambda n: run([n]),names))
    fresh2=dict(x[0] for x in tp.map(lambda n: run([n]),names))
    print("fresh reproducible across processes:",all(fresh[n]==fresh2[n] for n in names))
    for n in names:
        if fresh[n]!=fresh2[n]: print("   nonrepro",n,fresh[n],fresh2[n])
    seqs=[]
    rnd=random.Random(1)
    for k in range(12):
        s=names*2; rnd.shuffle(s); seqs.append(s)
    outs=tp.map(run,seqs)
bad={}
for s,o in zip(seqs,outs):
    if o and o[0][0]=="ERR": print("sequence error",o[0][1]); continue
    for i,(n,d) in enumerate(o):
        if d!=fresh[n]:
            bad.setdefault(n,[]).append((s[:i],d))
for n,v in bad.items():
    print("HISTORY-DEPENDENT:",n,"in",len(v),"positions; e.g. after",v[0][0][-3:],"got",v[0][1],"fresh",fresh[n])
print("jobs with history dependence:",list(bad))
