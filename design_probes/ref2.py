# prototype: STO overlap by numerical quadrature in prolate spheroidal coordinates vs seqm
import numpy as np, math
from numpy.polynomial.legendre import leggauss
from numpy.polynomial.laguerre import laggauss
def sto_norm(n,z): return (2*z)**(n+0.5)/math.sqrt(math.factorial(2*n))
def overlap_local(nA,zA,lA,mA,nB,zB,lB,mB,R,nq=80):
    """<chi_A|chi_B>, A at origin, B at +R on z axis, real STOs: l=0 s; l=1,m=0 p_z(sigma); l=1,m=1 p_x (pi). both centres use same (parallel) axes"""
    # prolate spheroidal: xi in [1,inf), eta in [-1,1]; rA=R(xi+eta)/2, rB=R(xi-eta)/2; z_A = R(1+xi eta)/2 ; z_B = z_A - R; rho^2 = (R/2)^2 (xi^2-1)(1-eta^2)
    x,wx=laggauss(nq); e,we=leggauss(nq)
    # scale Laguerre: xi = 1 + x/a with a = R (zA+zB)/2
    a=R*(zA+zB)/2.0
    XI=1+x[:,None]/a; ETA=e[None,:]
    rA=R*(XI+ETA)/2; rB=R*(XI-ETA)/2
    zAc=R*(1+XI*ETA)/2; zBc=zAc-R
    rho2=(R/2)**2*(XI**2-1)*(1-ETA**2)
    def ang(l,m,r,z):
        if l==0: return np.full_like(r, 1/math.sqrt(4*math.pi))
        if m==0: return math.sqrt(3/(4*math.pi))*z/r
        return math.sqrt(3/(4*math.pi))*np.sqrt(rho2)/r   # p_x = sqrt(3/4pi) x/r ; phi integral handled below
    fA=sto_norm(nA,zA)*rA**(nA-1)*np.exp(-zA*rA)*ang(lA,mA,rA,zAc)
    fB=sto_norm(nB,zB)*rB**(nB-1)*np.exp(-zB*rB)*ang(lB,mB,rB,zBc)
    # volume element (R/2)^3 (xi^2-eta^2) dxi deta dphi ; phi integral: 2pi for m=0 pairs, pi for cos^2 (pi-pi)
    phi = 2*math.pi if (mA==0 and mB==0) else (math.pi if (mA==1 and mB==1) else 0.0)
    integrand=fA*fB*(R/2)**3*(XI**2-ETA**2)*phi
    # laguerre weight: int_0^inf e^{-x} g(x) dx ; our dxi = dx/a and integrand lacks e^{-x} factor -> multiply by e^{x}
    return float(np.sum(wx[:,None]*np.exp(x)[:,None]*we[None,:]*integrand)/a)
if __name__=="__main__":
    import torch, warnings; warnings.filterwarnings("ignore")
    torch.set_default_dtype(torch.float64)
    from seqm.seqm_functions.diat_overlap_PM6_SP import diatom_overlap_matrix_PM6_SP
    from seqm.seqm_functions.constants import Constants
    c=Constants()
    QN={1:1,6:2,8:2,16:3,17:3,11:3}
    rng=np.random.default_rng(1)
    for ZA,ZB in [(1,1),(6,1),(8,6),(16,1),(16,8),(17,16),(6,6),(17,17)]:
        zA=rng.uniform(0.9,3.0,size=2); zB=rng.uniform(0.9,3.0,size=2)
        if ZA==ZB and rng.random()<0.5: zB=zA.copy()
        R=rng.uniform(1.2,6.0)
        # local frame: bond along +x in seqm with xij=(1,0,0)?? use z-axis: xij=(0,0,1): i->j
        di=diatom_overlap_matrix_PM6_SP(torch.tensor([ZA]),torch.tensor([ZB]),torch.tensor([[0.0,0.0,1.0]]),torch.tensor([R]),torch.tensor([zA]),torch.tensor([zB]),c.qn_int)[0].numpy()
        nA,nB=QN[ZA],QN[ZB]
        S=np.zeros((4,4))
        # orbital order s,px,py,pz ; bond along z => sigma = pz (index 3), pi = px,py
        S[0,0]=overlap_local(nA,zA[0],0,0,nB,zB[0],0,0,R)
        if ZA>1: S[3,0]=overlap_local(nA,zA[1],1,0,nB,zB[0],0,0,R)
        if ZB>1: S[0,3]=overlap_local(nA,zA[0],0,0,nB,zB[1],1,0,R)
        if ZA>1 and ZB>1:
            S[3,3]=overlap_local(nA,zA[1],1,0,nB,zB[1],1,0,R)
            S[1,1]=S[2,2]=overlap_local(nA,zA[1],1,1,nB,zB[1],1,1,R)
        print(ZA,ZB,"R=%.2f"%R,"max diff %.2e"%np.abs(di-S).max(), "Sss %.4f"%S[0,0])
        if np.abs(di-S).max()>1e-6:
            np.set_printoptions(precision=5,suppress=True); print(di); print(S)
