import sys; sys.path.insert(0,"/repo/tests"); sys.path.insert(0,"/repo")
import warnings; warnings.filterwarnings("ignore")
import torch, math
from test_nonadiabatic import make_dummy, make_dummy_fssh
torch.manual_seed(0)
def prop(nst,dt,nsub,scale,gap):
    nad=make_dummy(nstates=nst,timestep=dt,substeps=nsub)
    nad._amp_phase=torch.zeros(1,nst,3,dtype=torch.float64); 
    g=torch.Generator().manual_seed(1)
    a=torch.randn(nst,2,generator=g,dtype=torch.float64); a/=a.norm()
    nad._amp_phase[0,:,:2]=a
    A=torch.randn(nst,nst,generator=g,dtype=torch.float64)*scale; A=A-A.T
    A2=torch.randn(nst,nst,generator=g,dtype=torch.float64)*scale; A2=A2-A2.T
    e0=torch.arange(nst,dtype=torch.float64)[None]*gap; e1=e0+0.01*torch.randn(1,nst,generator=g,dtype=torch.float64)
    nad._propagate_electronic({"energies":e0,"nac_dot":A[None].clone()},{"energies":e1,"nac_dot":A2[None].clone()},substeps=nsub)
    return nad.populations.sum().item()-1, nad
for scale in [0.05,0.5,5.0]:
    for gap in [1e-3,0.5,5.0]:
        d=[abs(prop(4,0.5,n,scale,gap)[0]) for n in (4,8,16,32)]
        print("scale %.2f gap %.3f norm defect nsub=4,8,16,32:"%(scale,gap),["%.1e"%x for x in d],"ratios",["%.1f"%(d[i]/max(d[i+1],1e-300)) for i in range(3)])
# adaptive default
d,nad=prop(4,0.5,None,5.0,0.5); print("adaptive nsub defect %.1e"%abs(d))
# hop probs
dyn=make_dummy_fssh(nmol=3,nstates=4)
dyn._amp_phase[:,:,:2]=torch.randn(3,4,2,dtype=torch.float64); 
dyn._hop_integral=torch.randn(3,4,4,dtype=torch.float64)*3
dyn._active_states=torch.tensor([0,2,3])
print(dyn._attempt_hop())
