import sys, os, json, warnings; warnings.filterwarnings("ignore")
import torch; torch.set_num_threads(1); torch.set_default_dtype(torch.float64)
import io, contextlib
from seqm.seqm_functions.constants import Constants
from seqm.Molecule import Molecule
import seqm.MolecularDynamics as MD
from seqm.NonadiabaticDynamics import SurfaceHoppingDynamics
cfg=json.loads(sys.argv[1])
class Boom(BaseException): pass
base=MD.Molecular_Dynamics_Basic
calls={"n":0}
orig_run_loop_step={}
def wrap(cls):
    o=cls._do_integrator_step
    def w(self,i,*a,**k):
        if i==cfg["crash_step"]:
            if cfg["kind"]=="hard": os._exit(137)
            raise Boom()
        return o(self,i,*a,**k)
    cls._do_integrator_step=w
for c in (MD.Molecular_Dynamics_Basic,MD.XL_BOMD,SurfaceHoppingDynamics.__mro__[1]): wrap(c)
eng=cfg["engine"]; prefix=cfg["prefix"]
try:
    with contextlib.redirect_stdout(io.StringIO()):
        if cfg["mode"]=="fresh":
            sp=torch.tensor([[8,6,1,1],[8,6,1,1]]); xyz=torch.tensor([[[0.0,0,0],[1.22,0,0.03],[1.82,0.94,0],[1.80,-0.90,0.05]],[[0.0,0,0.02],[1.20,0.02,0.0],[1.85,0.92,0.03],[1.78,-0.95,0.0]]])
            s={"method":"AM1","scf_eps":1e-8,"scf_converger":[1]}
            out={"molid":[0,1],"prefix":prefix,"print every":0,"xyz":1,"checkpoint every":cfg["ckpt"],"h5":{"data":1,"coordinates":1,"velocities":1,"forces":1}}
            kw={}
            if eng=="basic": cls=MD.Molecular_Dynamics_Basic
            elif eng=="langevin": cls=MD.Molecular_Dynamics_Langevin; kw["damp"]=30.0
            elif eng=="xl": cls=MD.XL_BOMD; kw["xl_bomd_params"]={"k":cfg.get("k",5)}
            elif eng=="xl_damp": cls=MD.XL_BOMD; kw["xl_bomd_params"]={"k":cfg.get("k",5)}; kw["damp"]=30.0
            elif eng=="ksa": cls=MD.KSA_XL_BOMD; kw["xl_bomd_params"]={"k":cfg.get("k",5),"max_rank":2,"err_threshold":0.0,"T_el":1500}
            elif eng=="es_basic": cls=MD.Molecular_Dynamics_Basic; s.update({"excited_states":{"n_states":3},"active_state":1})
            elif eng=="es_xl": cls=MD.XL_BOMD; kw["xl_bomd_params"]={"k":cfg.get("k",5)}; s.update({"excited_states":{"n_states":3},"active_state":1})
            elif eng=="fssh": cls=SurfaceHoppingDynamics; s.update({"excited_states":{"n_states":2,"method":"cis"}}); kw["initial_state"]=1; out["h5"]["nonadiabatic"]=1
            mol=Molecule(Constants(),s,xyz,sp)
            md=cls(seqm_parameters=s,Temp=300.0,timestep=0.4,output=out,**kw)
            md.run(mol,steps=cfg["steps"],seed=3,reuse_P=cfg.get("reuse_P",True))
        else:
            if eng=="fssh": SurfaceHoppingDynamics.run_from_checkpoint(prefix+".restart.pt")
            else: MD.Molecular_Dynamics_Basic.run_from_checkpoint(prefix+".restart.pt")
except Boom: sys.exit(3)
