import sys, json, warnings, io, contextlib, hashlib; warnings.filterwarnings("ignore")
import numpy as np, torch
torch.set_num_threads(1); torch.set_default_dtype(torch.float64)
from seqm.seqm_functions.constants import Constants
from seqm.Molecule import Molecule
from seqm.ElectronicStructure import Electronic_Structure
import seqm.MolecularDynamics as MD
W=[[0.0,0.0,0.0],[0.96,0.0,0.1],[-0.24,0.93,0.05]]
CH4=[[0.0,0,0],[0.63,0.63,0.63],[-0.63,-0.63,0.63],[-0.63,0.63,-0.63],[0.63,-0.63,-0.65]]
H2CO=[[0.0,0,0],[1.22,0,0.03],[1.82,0.94,0],[1.80,-0.90,0.05]]
CH3=[[0.0,0,0.05],[1.08,0.0,0.0],[-0.54,0.93,0.02],[-0.52,-0.95,-0.03]]
SO2=[[0.0,0,0],[1.43,0.02,0.01],[-0.70,1.25,0.0]]
NH3=[[0.0,0,0],[0.94,0.1,-0.38],[-0.45,0.83,-0.36],[-0.48,-0.80,-0.40]]
HF=[[0.0,0,0],[0.5,0.6,0.5]]
def sp_job(Z,X,s,charges=0,mult=1):
    def f():
        mol=Molecule(Constants(),s,torch.tensor([X]),torch.tensor([Z]),charges=torch.tensor([charges]),mult=torch.tensor([mult]))
        es=Electronic_Structure(s); es(mol)
        out={"E":mol.Etot.detach(),"F":mol.force.detach(),"q":mol.q.detach()}
        if mol.cis_energies is not None: out["cis"]=mol.cis_energies.detach()
        return out
    return f
def md_job():
    s={"method":"AM1","scf_eps":1e-7,"scf_converger":[1]}
    mol=Molecule(Constants(),s,torch.tensor([W]),torch.tensor([[8,1,1]])); mol.velocities=torch.zeros(1,3,3); mol.velocities[0,1,0]=0.01
    md=MD.XL_BOMD(xl_bomd_params={"k":4},seqm_parameters=s,Temp=300.0,timestep=0.3,output={"molid":[0],"prefix":"/tmp/probe/pilot/h","print every":0,"xyz":0,"checkpoint every":0,"h5":{}})
    md.run(mol,steps=3)
    return {"x":mol.coordinates.detach().clone(),"v":mol.velocities.clone()}
def bad_job():
    try:
        Molecule(Constants(),{"method":"AM1","scf_eps":1e-7,"scf_converger":[1]},torch.tensor([W]),torch.tensor([[1,8,1]])); return {"r":torch.tensor([0.0])}
    except ValueError: return {"r":torch.tensor([1.0])}
JOBS={
 "water_am1":lambda: sp_job([8,1,1],W,{"method":"AM1","scf_eps":1e-8,"scf_converger":[1]})(),
 "ch4_pm3_pulay":lambda: sp_job([6,1,1,1,1],CH4,{"method":"PM3","scf_eps":1e-9,"scf_converger":[2]})(),
 "h2co_cis":lambda: sp_job([8,6,1,1],H2CO,{"method":"AM1","scf_eps":1e-8,"scf_converger":[1],"excited_states":{"n_states":3},"active_state":1})(),
 "ch3_uhf":lambda: sp_job([6,1,1,1],CH3,{"method":"MNDO","scf_eps":1e-8,"scf_converger":[1],"UHF":True},0,2)(),
 "so2_pm6":lambda: sp_job([16,8,8],SO2,{"method":"PM6","scf_eps":1e-8,"scf_converger":[1]})(),
 "water_sp2":lambda: sp_job([8,1,1],W,{"method":"AM1","scf_eps":1e-8,"scf_converger":[1],"sp2":[True,1e-6]})(),
 "nh3_bw1":lambda: sp_job([7,1,1,1],NH3,{"method":"AM1","scf_eps":1e-9,"scf_converger":[1],"scf_backward":1})(),
 "nh3_bw2":lambda: sp_job([7,1,1,1],NH3,{"method":"AM1","scf_eps":1e-9,"scf_converger":[0,0.2],"scf_backward":2})(),
 "hf_pm6sp_anal":lambda: sp_job([9,1],HF,{"method":"PM6_SP","scf_eps":1e-8,"scf_converger":[1],"analytical_gradient":[True]})(),
 "water_rpa":lambda: sp_job([8,1,1],W,{"method":"PM3","scf_eps":1e-8,"scf_converger":[1],"excited_states":{"n_states":2,"method":"rpa"}})(),
 "md_xl":md_job, "bad":bad_job,
}
def digest(out): return {k:hashlib.sha256(v.numpy().tobytes()).hexdigest()[:16] for k,v in out.items()}
if __name__=="__main__":
    names=sys.argv[1].split(",")
    res=[]
    with contextlib.redirect_stdout(io.StringIO()):
        for n in names:
            try: res.append((n,digest(JOBS[n]())))
            except Exception as e: res.append((n,{"exc":type(e).__name__+str(e)[:80]}))
    print(json.dumps(res))
