import sys, warnings; warnings.filterwarnings("ignore")
import numpy as np, torch
torch.set_num_threads(1); torch.set_default_dtype(torch.float64)
from seqm.seqm_functions.constants import Constants
from seqm.Molecule import Molecule
from seqm.seqm_functions.hcore import hcore
from mols import T
from sweep1 import quat_rot
Z,X=T["CH3NH2"]; const=Constants()
found=0
for trial in range(40):
    rng=np.random.default_rng(trial)
    X0=np.array(X)+rng.uniform(-0.05,0.05,size=(len(Z),3)); X0=X0@quat_rot(rng.normal(size=4)).T
    d=rng.normal(size=X0.shape); d/=np.linalg.norm(d)
    ts=np.linspace(-8e-3,8e-3,161)
    coords=torch.tensor(np.stack([X0+t*d for t in ts]))
    sp={"method":"AM1","scf_eps":1e-8,"scf_converger":[1]}
    mol=Molecule(const,sp,coords,torch.tensor([Z]*len(ts)))
    with torch.no_grad():
        M,w,*_=hcore(mol)
    nb=len(ts); M=M.reshape(nb,-1).numpy(); w=w.reshape(nb,-1).numpy()
    for nm,A in (("M",M),("w",w)):
        d2=A[2:]-2*A[1:-1]+A[:-2]           # second difference; smooth => O(h^2)~1e-8*f''
        med=np.median(np.abs(d2),axis=0)+1e-13
        spike=np.abs(d2)/med
        idx=np.unravel_index(np.argmax(np.abs(d2)),d2.shape)
        if np.abs(d2).max()>1e-8:
            found+=1
            print("trial",trial,nm,"max |2nd diff| %.2e at t=%.4e elem %d (median %.1e)"%(np.abs(d2).max(),ts[idx[0]+1],idx[1],med[idx[1]]))
print("found",found)
