import sys, os, json, math, time, warnings, io, contextlib
warnings.filterwarnings("ignore")
import numpy as np, torch
torch.set_num_threads(1); torch.set_default_dtype(torch.float64)
sys.path.insert(0,"/tmp/probe"); from common import run
from mols import T, POOL, IONS, RADS
from sweep1 import quat_rot
EVK=23.061
def identities(m,es,b,nat,charge,uhf):
    out={}
    out["EtotSum"]=abs((m.Etot[b]-m.Eelec[b]-m.Enuc[b]).item())
    q=m.q[b,:nat]; out["qsum"]=abs(q.sum().item()-charge)
    out["qpad"]=float(m.q[b,nat:].abs().max()) if m.q.shape[1]>nat else 0.0
    e=m.e_mo[b]
    if not uhf:
        n=int(m.nocc[b]); norb=int(m.norb[b]); out["gap"]=abs((m.e_gap[b]-(e[n]-e[n-1])).item()); out["asc"]=bool((e[:norb][1:]>=e[:norb][:-1]-1e-12).all())
        P=m.dm[b]; out["qP"]=float((m.const.tore[m.species[b]]-P.diagonal().reshape(-1,4).sum(1)-m.q[b]).abs().max())
    out["HfId"]=abs((m.Hf[b]-(m.Etot[b]-m.Eiso[b]+m.const.eheat[m.species[b]].sum())).item())
    out["finite"]=bool(torch.isfinite(m.force[b]).all() and torch.isfinite(m.Etot[b]))
    return out
def work(job):
    meth,names,seed=job
    rng=np.random.default_rng(seed)
    mols=[]
    for nm in names:
        if nm in T: (Z,X),ch,mu=T[nm],0,1
        elif nm in IONS: (Z,X),ch=IONS[nm]; mu=1
        else: (Z,X),ch,mu=RADS[nm]
        X=np.array(X)+rng.uniform(-0.04,0.04,size=(len(Z),3)); X=X@quat_rot(rng.normal(size=4)).T+rng.uniform(-2,2,size=3)
        mols.append((nm,Z,X,ch,mu))
    uhf=any(m[4]!=1 for m in mols)
    res={"method":meth,"names":names,"uhf":uhf,"seed":seed}
    try:
        alone=[]
        for nm,Z,X,ch,mu in mols:
            m,es=run([Z],[X.tolist()],method=meth,eps=1e-9,charges=torch.tensor([ch]),mult=torch.tensor([mu]),uhf=uhf)
            alone.append((m,es)); 
        res["alone_notconv"]=[bool(es.notconverged[0]) for m,es in alone]
        res["ident"]=[identities(m,es,0,len(mols[i][1]),mols[i][3],uhf) for i,(m,es) in enumerate(alone)]
        # batch
        width=max(len(m[1]) for m in mols)+int(rng.integers(0,3))
        order=rng.permutation(len(mols))
        sp=[];xyz=[];chs=[];mus=[]
        for i in order:
            nm,Z,X,ch,mu=mols[i]; npad=width-len(Z)
            sp.append(list(Z)+[0]*npad); padc=rng.uniform(-50,50,size=(npad,3)) if rng.random()<0.7 else np.zeros((npad,3))
            xyz.append(np.vstack([X,padc]).tolist() if npad else X.tolist()); chs.append(ch); mus.append(mu)
        res["batch"]={}
        for tag,conv,sp2 in ([("adapt",[1],[False]),("pulay",[2],[False]),("sp2",[1],[True,1e-7])] if not uhf else [("adapt",[1],[False]),("fixed",[0,0.2],[False])]):
            if tag=="sp2" and any(c<0 for c in chs): res["batch"][tag]="skipped(anion+sp2 hang)"; continue
            mb,eb=run(sp,xyz,method=meth,eps=1e-9,conv=conv,sp2=sp2,charges=torch.tensor(chs),mult=torch.tensor(mus),uhf=uhf)
            dE=[];dF=[];dq=[];padF=0.0
            for pos,i in enumerate(order):
                ma=alone[i][0]; nat=len(mols[i][1])
                dE.append(abs((mb.Etot[pos]-ma.Etot[0]).item())); dF.append(float((mb.force[pos,:nat]-ma.force[0]).abs().max())); dq.append(float((mb.q[pos,:nat]-ma.q[0]).abs().max()))
                if width>nat: padF=max(padF,float(mb.force[pos,nat:].abs().max()))
            res["batch"][tag]={"dE":max(dE),"dF":max(dF),"dq":max(dq),"padF":padF,"notconv":[bool(x) for x in eb.notconverged]}
    except Exception as e:
        import traceback; res["exc"]=type(e).__name__+": "+str(e)[:200]+" @ "+traceback.format_exc().splitlines()[-3][:120]
    return res
if __name__=="__main__":
    from multiprocessing import Pool
    jobs=[]; rng=np.random.default_rng(123)
    for meth in POOL:
        names=[k for k,(Z,X) in T.items() if set(Z)<=POOL[meth] and len(Z)<=8]
        ions=[k for k,((Z,X),c) in IONS.items() if set(Z)<=POOL[meth]]
        rads=[k for k,((Z,X),c,mu) in RADS.items() if set(Z)<=POOL[meth]]
        for j in range(40):
            k=int(rng.integers(2,4)); pick=list(rng.choice(names,size=k,replace=False))
            if j%3==0: pick[0]=str(rng.choice(ions))
            jobs.append((meth,[str(x) for x in pick],int(rng.integers(1e9))))
        for j in range(10):
            pick=[str(rng.choice(rads)),str(rng.choice(names)),str(rng.choice(rads))]
            jobs.append((meth,pick,int(rng.integers(1e9))))
    print(len(jobs),"jobs",flush=True)
    with Pool(16) as p: res=p.map(work,jobs,chunksize=1)
    json.dump(res,open("sweep3.json","w"))
    mx={}
    for r in res:
        if "exc" in r: print("EXC",r["method"],r["names"],r["exc"]); continue
        if any(r["alone_notconv"]): print("alone notconv",r["method"],r["names"],r["alone_notconv"])
        for nm,idn in zip(r["names"],r["ident"]):
            for k,v in idn.items():
                if isinstance(v,bool):
                    if not v: print("IDENT FAIL",r["method"],nm,k)
                else:
                    mx[k]=max(mx.get(k,0),v)
                    if v>1e-8: print("IDENT",r["method"],nm,k,"%.2e"%v)
        for tag,b in r["batch"].items():
            if isinstance(b,str): continue
            key=("uhf_" if r["uhf"] else "")+tag
            for k in ("dE","dF","dq","padF"): mx[key+"."+k]=max(mx.get(key+"."+k,0),b[k])
            if b["dE"]>1e-7 or b["dF"]>1e-5 or b["padF"]>0 or any(b["notconv"]): print("BATCH",r["method"],r["names"],tag,{k:("%.1e"%v if isinstance(v,float) else v) for k,v in b.items()})
    print("maxima:"); [print("  ",k,"%.2e"%v) for k,v in sorted(mx.items())]
