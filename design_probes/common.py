import warnings, io, contextlib, time, sys, os
warnings.filterwarnings("ignore")
import torch
torch.set_default_dtype(torch.float64)
from seqm.seqm_functions.constants import Constants
from seqm.Molecule import Molecule
from seqm.ElectronicStructure import Electronic_Structure

def run(species, coords, method="AM1", eps=1e-9, conv=[1], sp2=[False], charges=0, mult=1, uhf=False, extra=None, quiet=True, P0=None):
    sp = {"method": method, "scf_eps": eps, "scf_converger": list(conv), "sp2": list(sp2)}
    if uhf: sp["UHF"] = True
    if extra: sp.update(extra)
    species = torch.as_tensor(species, dtype=torch.int64)
    coords = torch.as_tensor(coords, dtype=torch.float64).clone()
    const = Constants()
    buf = io.StringIO()
    ctx = contextlib.redirect_stdout(buf) if quiet else contextlib.nullcontext()
    with ctx:
        mol = Molecule(const, sp, coords, species, charges=charges, mult=mult)
        es = Electronic_Structure(sp)
        es(mol, P0=P0)
    return mol, es

def fd_force(species, coords, h=1e-3, **kw):
    coords = torch.as_tensor(coords, dtype=torch.float64)
    F = torch.zeros_like(coords)
    for b in range(coords.shape[0]):
        for a in range(coords.shape[1]):
            if species[b][a] == 0: continue
            for k in range(3):
                cp = coords.clone(); cp[b,a,k] += h
                cm = coords.clone(); cm[b,a,k] -= h
                Ep = run(species, cp, **kw)[0].Etot[b]
                Em = run(species, cm, **kw)[0].Etot[b]
                F[b,a,k] = -(Ep-Em)/(2*h)
    return F
