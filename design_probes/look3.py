import sys, json, warnings; warnings.filterwarnings("ignore")
import numpy as np, torch
torch.set_num_threads(1); torch.set_default_dtype(torch.float64)
sys.path.insert(0,"/tmp/probe"); from common import run
from mols import T, POOL, IONS, RADS
from sweep1 import quat_rot
res=json.load(open("sweep3.json"))
bad=[r for r in res if "batch" in r and isinstance(r["batch"].get("pulay"),dict) and r["batch"]["pulay"]["dE"]>1e-3]
print(len(bad),"bad pulay batches of",sum(1 for r in res if "batch" in r and isinstance(r["batch"].get("pulay"),dict)))
r=bad[1]; print(r["method"],r["names"],r["seed"])
meth=r["method"]; rng=np.random.default_rng(r["seed"]); mols=[]
for nm in r["names"]:
    if nm in T: (Z,X),ch,mu=T[nm],0,1
    elif nm in IONS: (Z,X),ch=IONS[nm]; mu=1
    X=np.array(X)+rng.uniform(-0.04,0.04,size=(len(Z),3)); X=X@quat_rot(rng.normal(size=4)).T+rng.uniform(-2,2,size=3)
    mols.append((nm,Z,X,ch,mu))
width=max(len(m[1]) for m in mols)+int(rng.integers(0,3)); order=rng.permutation(len(mols))
sp=[];xyz=[];chs=[]
for i in order:
    nm,Z,X,ch,mu=mols[i]; npad=width-len(Z)
    sp.append(list(Z)+[0]*npad); padc=rng.uniform(-50,50,size=(npad,3)) if rng.random()<0.7 else np.zeros((npad,3))
    xyz.append(np.vstack([X,padc]).tolist() if npad else X.tolist()); chs.append(ch)
print("order",[mols[i][0] for i in order],"width",width)
for conv in ([1],[2]):
    al=[run([mols[i][1]],[mols[i][2].tolist()],method=meth,eps=1e-9,conv=conv,charges=torch.tensor([mols[i][3]]))[0].Etot.item() for i in order]
    mb,eb=run(sp,xyz,method=meth,eps=1e-9,conv=conv,charges=torch.tensor(chs))
    print("conv",conv,"alone",al); print("      batch",mb.Etot.tolist(),"notconv",eb.notconverged.tolist())
# zero-coordinate padding / no padding / pairs
mb,eb=run(sp,[[a if s>0 else [0,0,0] for a,s in zip(x,z)] for x,z in zip(xyz,sp)],method=meth,eps=1e-9,conv=[2],charges=torch.tensor(chs)); print("zero pads",mb.Etot.tolist())
for sub in ([0,1],[0,2],[1,2],[0],[1],[2]):
    mb,eb=run([sp[i] for i in sub],[xyz[i] for i in sub],method=meth,eps=1e-9,conv=[2],charges=torch.tensor([chs[i] for i in sub])); print("subset",sub,mb.Etot.tolist(),eb.notconverged.tolist())
