import sys, os, json, math, time, warnings
warnings.filterwarnings("ignore")
import numpy as np, torch
torch.set_num_threads(1); torch.set_default_dtype(torch.float64)
sys.path.insert(0,"/tmp/probe"); from common import run
from mols import T, POOL, IONS
from sweep1 import quat_rot
CONF=[("adapt",[1],[False]),("pulay",[2],[False]),("fix0.0",[0,0.0],[False]),("fix0.3",[0,0.3],[False]),("fix0.7",[0,0.7],[False]),("adapt+sp2",[1],[True,1e-7]),("pulay+sp2",[2],[True,1e-6]),("uhf-adapt",[1],[False]),("adapt1KLM",[1,0.5,0.1,20],[False])]
def work(job):
    meth,name,seed=job
    if name in T: (Z,X),ch=T[name],0
    else: (Z,X),ch=IONS[name]
    rng=np.random.default_rng(seed)
    X=np.array(X)+rng.uniform(-0.05,0.05,size=(len(Z),3)); X=X@quat_rot(rng.normal(size=4)).T
    out={"method":meth,"mol":name,"seed":seed,"res":{}}
    ref=None
    for tag,conv,sp2 in CONF:
        t=time.time()
        try:
            m,es=run([Z],[X.tolist()],method=meth,eps=1e-8,conv=conv,sp2=sp2,charges=torch.tensor([ch]),uhf=tag.startswith("uhf"))
            d={"E":float(m.Etot[0]),"notconv":bool(es.notconverged[0]),"t":time.time()-t,"F":m.force[0].numpy().tolist()}
        except Exception as e: d={"exc":type(e).__name__+": "+str(e)[:100]}
        out["res"][tag]=d
    return out
if __name__=="__main__":
    from multiprocessing import Pool
    rng=np.random.default_rng(7)
    jobs=[(meth,name,int(rng.integers(1e9))) for meth in POOL for name,(Z,X) in T.items() if set(Z)<=POOL[meth]]
    jobs+=[(meth,name,int(rng.integers(1e9))) for meth in POOL for name,((Z,X),c) in IONS.items() if set(Z)<=POOL[meth]]
    print(len(jobs),"jobs",flush=True)
    with Pool(16) as p: res=p.map(work,jobs,chunksize=1)
    json.dump(res,open("sweep4.json","w"))
    stats={}
    for r in res:
        ref=r["res"]["adapt"]
        for tag,d in r["res"].items():
            s=stats.setdefault(tag,{"n":0,"exc":0,"notconv":0,"bad":0,"maxdE":0,"maxdF":0,"tmax":0})
            s["n"]+=1
            if "exc" in d: s["exc"]+=1; print("EXC",r["method"],r["mol"],tag,d["exc"]); continue
            s["tmax"]=max(s["tmax"],d["t"])
            if d["notconv"]: s["notconv"]+=1; print("NOTCONV",r["method"],r["mol"],tag); continue
            if "E" in ref and not ref.get("notconv"):
                dE=abs(d["E"]-ref["E"]); dF=float(np.abs(np.array(d["F"])-np.array(ref["F"])).max())
                if dE>1e-4: s["bad"]+=1; print("DIFFERENT SOLUTION",r["method"],r["mol"],tag,"dE %.3f"%(d["E"]-ref["E"]))
                else: s["maxdE"]=max(s["maxdE"],dE); s["maxdF"]=max(s["maxdF"],dF)
    for k,v in stats.items(): print(k,{a:(("%.1e"%b) if isinstance(b,float) else b) for a,b in v.items()})
