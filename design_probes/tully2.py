import sys, warnings; warnings.filterwarnings("ignore")
sys.path.insert(0,"/repo")
import torch
from scripts.tully_surface_hopping.TullyModels import TullyModel
torch.set_default_dtype(torch.float64)
for name,b in [("single",TullyModel.single_crossing),("double",TullyModel.double_crossing),("extended",TullyModel.extended_coupling)]:
    m=b(); x=torch.tensor([-1.3,-0.4,0.2,0.9,2.5]); h=1e-5
    E,dE,nac=m.pot(x); Ep,_,_=m.pot(x+h); Em,_,_=m.pot(x-h)
    fd=(Ep-Em)/(2*h)
    print(name,"max |dE_analytic - dE_fd| = %.3e"%(dE-fd).abs().max().item(), " (max |dE| %.3f)"%dE.abs().max().item())
