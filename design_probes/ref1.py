# prototype: independent two-centre ERIs from Dewar-Thiel point-charge multipoles, vs seqm w
import numpy as np, itertools, math, csv
from scipy.optimize import brentq
EV=27.21; A0=0.529167
def load(method):
    rows=list(csv.reader(open(f"/repo/seqm/params/parameters_{method}_MOPAC.csv")))
    hdr=[h.strip() for h in rows[0]]
    tab={}
    for r in rows[1:]:
        if not r or not r[0].strip(): continue
        tab[int(r[0])]={h:(float(v) if i>1 else v.strip()) for i,(h,v) in enumerate(zip(hdr,r))}
    return tab
QN={1:1,3:2,4:2,5:2,6:2,7:2,8:2,9:2,11:3,12:3,13:3,14:3,15:3,16:3,17:3}
def multipole_params(p,Z):
    n=QN[Z]
    if Z==1:
        return dict(D1=0.0,D2=0.0,rho0=0.5*EV/p["g_ss"],rho1=0.0,rho2=0.0)
    zs,zp=p["zeta_s"],p["zeta_p"]
    D1=(2*n+1)*(4*zs*zp)**(n+0.5)/(zs+zp)**(2*n+2)/math.sqrt(3.0)
    D2=math.sqrt((4*n*n+6*n+2)/20.0)/zp
    rho0=0.5*EV/p["g_ss"]
    hsp=p["h_sp"]/EV
    hpp=max(0.5*(p["g_pp"]-p["g_p2"]),0.1)/EV
    # hsp = 1/4 [ 1/rho1 - 1/sqrt(D1^2+rho1^2) ]   (dipole self-interaction)
    f1=lambda r: 0.25*(1/r-1/math.sqrt(D1*D1+r*r))-hsp
    rho1=brentq(f1,1e-4,50,xtol=1e-15)
    # hpp = 1/8 [1/rho2 - 2/sqrt(D2^2+rho2^2) + 1/sqrt(2 D2^2 + rho2^2)]
    f2=lambda r: 0.125*(1/r-2/math.sqrt(D2*D2+r*r)+1/math.sqrt(2*D2*D2+r*r))-hpp
    rho2=brentq(f2,1e-4,50,xtol=1e-15)
    return dict(D1=D1,D2=D2,rho0=rho0,rho1=rho1,rho2=rho2)
# charge distributions in LOCAL frame: axis index 0 = bond axis (sigma), 1,2 = pi
def dist(mu,nu,mp):
    """return list of (kind, [(q, pos3)]) for product mu*nu, mu,nu in 0..3 (s,p0,p1,p2 local)"""
    D1,D2=mp["D1"],mp["D2"]
    e=np.eye(3)
    if mu>nu: mu,nu=nu,mu
    if (mu,nu)==(0,0): return [("m",[(1.0,np.zeros(3))])]
    if mu==0:
        a=e[nu-1]; return [("d",[(0.5,D1*a),(-0.5,-D1*a)])]
    if mu==nu:
        a=e[mu-1]
        return [("m",[(1.0,np.zeros(3))]),("q",[(0.25,2*D2*a),(0.25,-2*D2*a),(-0.5,np.zeros(3))])]
    a,b=e[mu-1],e[nu-1]
    return [("q",[(0.25,D2*(a+b)),(0.25,-D2*(a+b)),(-0.25,D2*(a-b)),(-0.25,-D2*(a-b))])]
def eri_local(mpA,mpB,R):
    """(mu nu|la si) local frame, A at origin, B at +R along axis 0; units eV, R bohr"""
    rho={"m":"rho0","d":"rho1","q":"rho2"}
    W=np.zeros((4,4,4,4))
    Rv=np.array([R,0,0.0])
    for mu,nu,la,si in itertools.product(range(4),repeat=4):
        v=0.0
        for kA,cA in dist(mu,nu,mpA):
            for kB,cB in dist(la,si,mpB):
                add=(mpA[rho[kA]]+mpB[rho[kB]])**2
                for qa,ra in cA:
                    for qb,rb in cB:
                        d=Rv+rb-ra
                        v+=qa*qb/math.sqrt(d@d+add)
        W[mu,nu,la,si]=v*EV
    return W
def frame(u):
    """orthonormal frame with first axis along u (Gram-Schmidt on least-aligned cartesian axis)"""
    u=u/np.linalg.norm(u); k=np.argmin(np.abs(u)); t=np.eye(3)[k]
    v=t-(t@u)*u; v/=np.linalg.norm(v); w=np.cross(u,v)
    return np.stack([u,v,w])  # rows: local axes in molecular coords
def eri_mol(ZA,ZB,rA,rB,tab):
    mpA,mpB=multipole_params(tab[ZA],ZA),multipole_params(tab[ZB],ZB)
    d=(rB-rA)/A0; R=np.linalg.norm(d); T3=frame(d)   # local_i = sum_a T3[i,a] mol_a
    T=np.eye(4); T[1:,1:]=T3.T                        # AO_mol(a) = sum_i T3[i,a] AO_loc(i)  => C[mol,loc]
    Wl=eri_local(mpA,mpB,R)
    if ZA==1: Wl[1:,:,:,:]=0; Wl[:,1:,:,:]=0
    if ZB==1: Wl[:,:,1:,:]=0; Wl[:,:,:,1:]=0
    return np.einsum("am,bn,cl,ds,mnls->abcd",T,T,T,T,Wl)
if __name__=="__main__":
    import torch, warnings, io, contextlib; warnings.filterwarnings("ignore")
    torch.set_default_dtype(torch.float64)
    from seqm.seqm_functions.constants import Constants
    from seqm.Molecule import Molecule
    from seqm.seqm_functions.hcore import hcore
    rng=np.random.default_rng(0)
    idx=[(0,0),(1,0),(1,1),(2,0),(2,1),(2,2),(3,0),(3,1),(3,2),(3,3)]
    for method,ZA,ZB in [("AM1",8,6),("AM1",6,1),("PM3",17,6),("MNDO",16,8),("PM3",17,17),("MNDO",11,9),("AM1",1,1),("PM3",12,1)]:
        tab=load(method)
        u=rng.normal(size=3); u/=np.linalg.norm(u); r=rng.uniform(0.8,3.0)
        xyz=np.array([[0.3,-0.2,0.1],[0.3,-0.2,0.1]+u*r])
        sp={"method":method,"scf_eps":1e-8,"scf_converger":[1]}
        # make closed shell by charge
        ne=sum({1:1,6:4,8:6,16:6,17:7,11:1,9:7,12:2}[z] for z in (ZA,ZB)); ch=ne%2
        mol=Molecule(Constants(),sp,torch.tensor(xyz[None]),torch.tensor([[ZA,ZB]]),charges=torch.tensor([ch]))
        M,w,*_=hcore(mol)
        Wref=eri_mol(ZA,ZB,xyz[0],xyz[1],tab)
        wref=np.array([[Wref[a,b,c,d] for (c,d) in idx] for (a,b) in idx])
        print(method,ZA,ZB,"r=%.3f"%r,"max|w-wref| = %.3e"%np.abs(w[0].detach().numpy()-wref).max(), "max|w|=%.2f"%np.abs(wref).max())
