import subprocess, h5py, numpy as np, sys
py="/venv/bin/python"
def run(*a): return subprocess.run([py,"child.py",*map(str,a)],capture_output=True,text=True)
r=run("fresh","md4/ref",-1,"none"); print("ref rc",r.returncode, r.stderr[-300:])
for kind in ["soft","hard"]:
    p="md4/"+kind
    r=run("fresh",p,5,kind); print(kind,"crash rc",r.returncode)
    r=run("resume",p,-1,"none"); print(kind,"resume rc",r.returncode, r.stderr[-400:])
    try:
        with h5py.File("md4/ref.0.h5") as a, h5py.File(p+".0.h5") as b:
            for k in ["data/steps","coordinates/steps","velocities/steps","forces/steps","coordinates/values","velocities/values","forces/values","data/thermo/Ek","data/thermo/Ep"]:
                x,y=a[k][...],b[k][...]
                print("  ",k, "equal" if x.shape==y.shape and np.array_equal(x,y) else ("maxdiff %.2e"%np.abs(x-y).max() if x.shape==y.shape else f"shape {x.shape} vs {y.shape}"))
    except Exception as e: print("  h5 error",e)
    fr=[l.split()[1] for l in open(p+".0.xyz") if l.startswith("step")]; print("   xyz frames",fr)
print("ref xyz",[l.split()[1] for l in open("md4/ref.0.xyz") if l.startswith("step")])
