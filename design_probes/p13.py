from common import *
import copy as _copy, types
import seqm.basics as B, seqm.Molecule as MM
torch.set_num_threads(1)
# harness-side bypass of the deepcopy defect: shallow-copy dict, keep tensors
shim=types.SimpleNamespace(deepcopy=lambda t: (dict(t[0]),t[1],t[2]) if isinstance(t,tuple) else _copy.deepcopy(t))
B.copy=shim; MM.copy=shim
from seqm.basics import Energy
from seqm.seqm_functions.parameters import params
sp=torch.tensor([[8,6,1,1]]); 
import math
def rot(axis, ang):
    axis=torch.tensor(axis,dtype=torch.float64); axis/=axis.norm()
    K=torch.tensor([[0,-axis[2],axis[1]],[axis[2],0,-axis[0]],[-axis[1],axis[0],0]])
    return torch.eye(3)+math.sin(ang)*K+(1-math.cos(ang))*K@K
xyz=(torch.tensor([[[0.0,0,0],[1.22,0,0],[1.82,0.94,0],[1.82,-0.94,0]]])@rot([1,2,3],0.7).T)
const=Constants()
names=["U_ss","U_pp","zeta_s","zeta_p","beta_s","beta_p","g_ss","g_sp","g_pp","g_p2","h_sp","alpha","Gaussian1_K","Gaussian1_L","Gaussian1_M"]
base=params(method="AM1",elements=[0,1,6,8],parameters=names,root_dir="/repo/seqm/params/")
def outputs(name,val,backward):
    s={"method":"AM1","scf_eps":1e-11,"scf_converger":[1],"learned":[name],"scf_backward":backward}
    with contextlib.redirect_stdout(io.StringIO()):
        mol=Molecule(const,s,xyz.clone(),sp, learned_parameters={name: val.detach().clone()})
        en=Energy(s)
        Hf,Etot,Eelec,Enuc,Eiso,EnucAB,e_gap,e,P,charge,notconv=en(mol, learned_parameters={name:val}, all_terms=True)
    q=P.diagonal(dim1=1,dim2=2).reshape(1,4,4).sum(2)
    return {"Etot":Etot[0],"Hf":Hf[0],"gap":e_gap[0],"q0":q[0,0],"homo":e[0,int(mol.nocc[0])-1]}
for bw in (0,1,2):
  for j,name in enumerate(names):
    v=base[torch.tensor([8,6,1,1]),j].clone().double()
    atom=0 if name not in ("U_pp","zeta_p","beta_p") else 0
    v.requires_grad_(True)
    try:
        o=outputs(name,v,bw)
    except Exception as e:
        print(bw,name,"EXC",type(e).__name__,str(e)[:80]); continue
    res=[]
    for key in (["Etot","Hf"] if bw==0 else ["Etot","gap","q0","homo"]):
        if not o[key].requires_grad: res.append(key+":nograd"); continue
        g=torch.autograd.grad(o[key],v,retain_graph=True,allow_unused=True)[0]
        h=1e-5*max(1.0,abs(v[atom].item()))
        vp=v.detach().clone(); vp[atom]+=h; vm=v.detach().clone(); vm[atom]-=h
        fd=(outputs(name,vp,bw)[key]-outputs(name,vm,bw)[key]).item()/(2*h)
        ga=g[atom].item() if g is not None else float("nan")
        res.append("%s: ad %.5g fd %.5g"%(key,ga,fd))
    print(bw,name," | ".join(res))
