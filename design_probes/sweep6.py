import sys, os, json, math, time, warnings, io, contextlib
warnings.filterwarnings("ignore")
import numpy as np, torch
torch.set_num_threads(1); torch.set_default_dtype(torch.float64)
from mols import POOL
from sweep1 import quat_rot
import refnddo as R
from seqm.seqm_functions.constants import Constants
from seqm.Molecule import Molecule
from seqm.basics import Energy
from seqm.seqm_functions.hcore import hcore
from seqm.seqm_functions.energy import pair_nuclear_energy
IDX=[(0,0),(1,0),(1,1),(2,0),(2,1),(2,2),(3,0),(3,1),(3,2),(3,3)]
def work(job):
    meth,ZA,ZB,r,seed=job
    rng=np.random.default_rng(seed)
    u=rng.normal(size=3); u/=np.linalg.norm(u)
    if seed%5==0: u=np.eye(3)[seed%3]*(1 if seed%2 else -1)   # axis-aligned too (energies/integrals are fine there)
    X=np.array([[0.1,-0.2,0.3],[0.1,-0.2,0.3]+u*r]); Z=[ZA,ZB]
    out={"method":meth,"pair":(ZA,ZB),"r":r}
    try:
        ne=R.core_charge(ZA)+R.core_charge(ZB)
        s={"method":meth,"scf_eps":1e-8,"scf_converger":[1]}
        with contextlib.redirect_stdout(io.StringIO()):
            mol=Molecule(Constants(),s,torch.tensor([X]),torch.tensor([Z]),charges=torch.tensor([ne%2]))
            en=Energy(s)
            with torch.no_grad():
                M,w,rho0xi,rho0xj,riXH,ri=hcore(mol)
                parnuc=en._build_parnuc(mol.parameters)
                EnucAB=pair_nuclear_energy(mol.Z,mol.const,mol.nmol,mol.ni,mol.nj,mol.idxi,mol.idxj,mol.rij,rho0xi,rho0xj,mol.alp,mol.chi,gam=w[...,0,0],method=meth,parameters=parnuc)
        mod=R.Model(meth,Z,X)
        Hs=M.reshape(2,2,4,4).transpose(1,2).reshape(8,8).numpy(); Hs=np.triu(Hs)+np.triu(Hs,1).T
        out["dH"]=float(np.abs(mod.from_seqm_P(Hs)-mod.H).max())
        W=mod.pairW[(0,1)]; wref=np.array([[W[a,b,c,d] for (c,d) in IDX] for (a,b) in IDX])
        out["dw"]=float(np.abs(w[0].numpy()-wref).max())
        out["dEnuc"]=float(abs(EnucAB[0].item()-mod.enuc())); out["Enuc"]=mod.enuc()
    except Exception as e:
        import traceback; out["exc"]=type(e).__name__+": "+str(e)[:150]+" @ "+traceback.format_exc().splitlines()[-2][:100]
    return out
if __name__=="__main__":
    from multiprocessing import Pool
    rng=np.random.default_rng(5); jobs=[]
    for meth in ("MNDO","AM1","PM3"):
        els=sorted(POOL[meth],reverse=True)
        for i,a in enumerate(els):
            for b in els[i:]:
                for r in (0.6+rng.uniform(0,0.3),1.0+rng.uniform(0,1.0),2.5+rng.uniform(0,3),8+rng.uniform(0,7)):
                    jobs.append((meth,a,b,float(r),int(rng.integers(1e9))))
    print(len(jobs),"jobs",flush=True)
    with Pool(16) as p: res=p.map(work,jobs,chunksize=8)
    json.dump(res,open("sweep6.json","w"))
    mx={}; bad=0
    for r in res:
        if "exc" in r: print("EXC",r["method"],r["pair"],"%.2f"%r["r"],r["exc"]); continue
        flag=[f"{k} {r[k]:.2e}" for k in ("dH","dw","dEnuc") if r[k]>1e-5]
        if flag and bad<40: bad+=1; print(r["method"],r["pair"],"r=%.2f"%r["r"]," ".join(flag),"(Enuc %.2f)"%r["Enuc"])
        for k in ("dH","dw","dEnuc"): mx[k]=max(mx.get(k,0),r[k])
    print("maxima",{k:"%.2e"%v for k,v in mx.items()})
