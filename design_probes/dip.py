import sys, warnings; warnings.filterwarnings("ignore")
import numpy as np, torch, math
torch.set_num_threads(1); torch.set_default_dtype(torch.float64)
sys.path.insert(0,"/tmp/probe"); from common import run
from mols import T, IONS, RADS
from sweep1 import quat_rot
A0=0.529167
QN={1:1,3:2,4:2,5:2,6:2,7:2,8:2,9:2,11:3,12:3,13:3,14:3,15:3,16:3,17:3}
TORE={1:1,3:1,4:2,5:3,6:4,7:5,8:6,9:7,11:1,12:2,13:3,14:4,15:5,16:6,17:7}
def refdip(m,b,nat,uhf):
    Z=m.species[b,:nat].tolist(); X=m.coordinates[b,:nat].detach().numpy()
    P=m.dm[b].numpy() if not uhf else (m.dm[b,0]+m.dm[b,1]).numpy()
    mu=np.zeros(3); off=0
    k=0
    for a,z in enumerate(Z):
        blk=P[4*a:4*a+4,4*a:4*a+4]
        q=TORE[z]-np.trace(blk)
        mu+=q*X[a]
        if z>1:
            n=QN[z]; zs=m.parameters["zeta_s"][sum(1 for bb in range(b) for zz in m.species[bb] if zz>0)+a].item(); zp=m.parameters["zeta_p"][sum(1 for bb in range(b) for zz in m.species[bb] if zz>0)+a].item()
            D1=(2*n+1)*(4*zs*zp)**(n+0.5)/(zs+zp)**(2*n+2)/math.sqrt(3.0)*A0
            mu-=2*D1*blk[0,1:4]
    return mu/A0   # e*Angstrom -> a.u. (e*bohr)
rng=np.random.default_rng(0)
worst=0
cases=[(k,T[k],0,1) for k in ["H2O","NH3","H2CO","CH3Cl","SO2","HCN","LiF","HOCl","CH3OH"]]+[(k,IONS[k][0],IONS[k][1],1) for k in ["OH-","NH4+","CN-","H3O+"]]+[(k,RADS[k][0],RADS[k][1],RADS[k][2]) for k in ["CH3","NO","H2O+"]]
for name,(Z,X),ch,mu_ in cases:
    X=np.array(X)@quat_rot(rng.normal(size=4)).T+rng.uniform(-3,3,size=3)
    uhf=mu_!=1
    m,es=run([Z],[X.tolist()],method="AM1" if 3 not in Z else "MNDO",eps=1e-9,charges=torch.tensor([ch]),mult=torch.tensor([mu_]),uhf=uhf)
    d=m.dipole[0].numpy(); r=refdip(m,0,len(Z),uhf)
    t=np.array([1.3,-2.2,0.7])
    m2,_=run([Z],[(X+t).tolist()],method="AM1" if 3 not in Z else "MNDO",eps=1e-9,charges=torch.tensor([ch]),mult=torch.tensor([mu_]),uhf=uhf)
    shift=m2.dipole[0].numpy()-d
    print(f"{name:6s} |mu|={np.linalg.norm(d):.4f} a.u.  code-ref {np.abs(d-r).max():.1e}   translation shift - Q*t/a0: {np.abs(shift-ch*t/A0).max():.1e}")
