import sys, os, json, math, time, warnings, io, contextlib
warnings.filterwarnings("ignore")
import numpy as np, torch
torch.set_num_threads(1); torch.set_default_dtype(torch.float64)
sys.path.insert(0,"/tmp/probe"); from common import run
from mols import T, POOL
def quat_rot(q):
    q=q/np.linalg.norm(q); w,x,y,z=q
    return np.array([[1-2*(y*y+z*z),2*(x*y-z*w),2*(x*z+y*w)],[2*(x*y+z*w),1-2*(x*x+z*z),2*(y*z-x*w)],[2*(x*z-y*w),2*(y*z+x*w),1-2*(x*x+y*y)]])
def work(job):
    meth,name=job
    Z,X=T[name]; rng=np.random.default_rng(abs(hash((meth,name)))%2**32)
    X=np.array(X)+rng.uniform(-0.05,0.05,size=(len(Z),3))
    X=X@quat_rot(rng.normal(size=4)).T+rng.uniform(-3,3,size=3)
    out={"method":meth,"mol":name}
    t=time.time()
    try:
        kw=dict(method=meth,eps=1e-10,conv=[1])
        m,es=run([Z],[X.tolist()],**kw)
        out["notconv"]=bool(es.notconverged[0]); out["gap"]=float(m.e_gap[0]); out["E"]=float(m.Etot[0])
        F=m.force[0].numpy()
        out["netF"]=float(np.abs(F.sum(0)).max()); out["torque"]=float(np.abs(np.cross(X,F).sum(0)).max())
        diffs=[]
        for ag in ([True],[True,"numerical"]):
            m2,_=run([Z],[X.tolist()],extra={"analytical_gradient":ag},**kw); diffs.append(float(np.abs(m2.force[0].numpy()-F).max()))
        out["anal"],out["semi"]=diffs
        fds=[]
        for k in range(2):
            d=rng.normal(size=X.shape); d/=np.linalg.norm(d)
            vals=[]
            for h in (4e-3,2e-3,1e-3):
                E=lambda t: float(run([Z],[(X+t*d).tolist()],**kw)[0].Etot[0])
                vals.append((-E(2*h)+8*E(h)-8*E(-h)+E(-2*h))/(12*h))
            ad=-float((F*d).sum())
            fds.append((ad,vals))
        out["fd"]=fds
        out["fd_err"]=max(abs(ad-v[1]) for ad,v in fds)
        out["fd_spread"]=max(max(v)-min(v) for ad,v in fds)
    except Exception as e:
        out["exc"]=type(e).__name__+": "+str(e)[:120]
    out["t"]=time.time()-t
    return out
if __name__=="__main__":
    from multiprocessing import Pool
    jobs=[(meth,name) for meth in POOL for name,(Z,X) in T.items() if set(Z)<=POOL[meth]]
    print(len(jobs),"jobs",flush=True)
    with Pool(16) as p:
        res=p.map(work,jobs,chunksize=1)
    json.dump(res,open("sweep1.json","w"))
    bad=0
    for r in res:
        if "exc" in r: print("EXC",r["method"],r["mol"],r["exc"]); continue
        flag=[]
        if r["notconv"]: flag.append("NOTCONV")
        if r["gap"]<2: flag.append("gap%.2f"%r["gap"])
        if r["anal"]>1e-6: flag.append("anal %.1e"%r["anal"])
        if r["semi"]>1e-6: flag.append("semi %.1e"%r["semi"])
        if r["fd_err"]>1e-6: flag.append("fd_err %.1e spread %.1e"%(r["fd_err"],r["fd_spread"]))
        if r["netF"]>1e-7 or r["torque"]>1e-6: flag.append("sumrule F %.1e T %.1e"%(r["netF"],r["torque"]))
        if flag: print(r["method"],r["mol"]," ".join(flag))
    ok=[r for r in res if "exc" not in r]
    print("n",len(res),"ok",len(ok),"median fd_err %.1e"%np.median([r["fd_err"] for r in ok]),"max time %.1f"%max(r["t"] for r in res))
