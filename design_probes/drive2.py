import subprocess, h5py, numpy as np, sys, json, os
from multiprocessing.pool import ThreadPool
py="/venv/bin/python"
def child(cfg): 
    r=subprocess.run([py,"child2.py",json.dumps(cfg)],capture_output=True,text=True); return r.returncode, r.stderr[-600:]
def cmp(a,b):
    diffs=[]
    def visit(name,obj):
        if isinstance(obj,h5py.Dataset):
            if name not in b: diffs.append((name,"missing")); return
            x,y=obj[...],b[name][...]
            if x.shape!=y.shape: diffs.append((name,f"shape {x.shape} vs {y.shape}"))
            elif not np.array_equal(x,y,equal_nan=True): diffs.append((name,"maxdiff %.2e"%np.nanmax(np.abs(x.astype(float)-y.astype(float)))))
    a.visititems(visit); return diffs
def experiment(args):
    eng,kind,crash,ckpt,steps=args
    tag=f"{eng}_{kind}_{crash}_{ckpt}"
    ref=f"md/ref_{eng}_{steps}"
    out=[tag]
    if not os.path.exists(ref+".0.h5"):
        rc,err=child({"mode":"fresh","engine":eng,"prefix":ref,"crash_step":-1,"kind":"none","ckpt":0,"steps":steps})
        if rc!=0: return [tag,"REF FAILED",err]
    p="md/"+tag
    rc,err=child({"mode":"fresh","engine":eng,"prefix":p,"crash_step":crash,"kind":kind,"ckpt":ckpt,"steps":steps}); out.append(f"crash rc {rc}")
    if rc not in (3,137): return out+["crash run error",err]
    rc,err=child({"mode":"resume","engine":eng,"prefix":p,"crash_step":-1,"kind":"none","ckpt":ckpt,"steps":steps}); out.append(f"resume rc {rc}")
    if rc!=0: return out+["RESUME FAILED",err[-300:]]
    for m in (0,1):
        with h5py.File(f"{ref}.{m}.h5") as a, h5py.File(f"{p}.{m}.h5") as b: d=cmp(a,b)
        out.append(f"mol{m}: "+("IDENTICAL" if not d else str(d[:4])))
    fr=[l.split()[1] for l in open(p+".0.xyz") if l.startswith("step")]; rf=[l.split()[1] for l in open(ref+".0.xyz") if l.startswith("step")]
    out.append("xyz "+("ok" if fr==rf else "frames "+",".join(fr)))
    return out
engines=sys.argv[1].split(",")
# first make refs sequentially per engine in parallel
jobs=[]
for eng in engines:
    for kind in ("soft","hard"):
        for crash,ckpt in ((5,3),(3,3)):
            jobs.append((eng,kind,crash,ckpt,8))
with ThreadPool(len(engines)) as tp: tp.map(lambda e: child({"mode":"fresh","engine":e,"prefix":f"md/ref_{e}_8","crash_step":-1,"kind":"none","ckpt":0,"steps":8}),engines)
with ThreadPool(16) as tp:
    for r in tp.map(experiment,jobs): print(" | ".join(map(str,r)))
