import sys, warnings, io, contextlib; warnings.filterwarnings("ignore")
import numpy as np, torch
torch.set_num_threads(1); torch.set_default_dtype(torch.float64)
from seqm.seqm_functions.constants import Constants
from seqm.Molecule import Molecule
from seqm.ElectronicStructure import Electronic_Structure
import seqm.MolecularDynamics as MD
W=[[0.0,0.0,0.0],[0.96,0.0,0.1],[-0.24,0.93,0.05]]; CH4=[[0.0,0,0],[0.63,0.63,0.63],[-0.63,-0.63,0.63],[-0.63,0.63,-0.63],[0.63,-0.63,-0.65]]
H2CO=[[0.0,0,0],[1.22,0,0.03],[1.82,0.94,0],[1.80,-0.90,0.05]]; pad=[0.0,0,0]
def attempt(label,Z,X,s,charges=None,mult=None,md=None):
    res="?"
    mol=None
    try:
        with contextlib.redirect_stdout(io.StringIO()):
            kw={}
            if charges is not None: kw["charges"]=torch.tensor(charges)
            if mult is not None: kw["mult"]=torch.tensor(mult)
            mol=Molecule(Constants(),s,torch.tensor(X),torch.tensor(Z),**kw)
            if md:
                m=MD.Molecular_Dynamics_Basic(seqm_parameters=s,Temp=300.0,timestep=0.3,output={"molid":[0],"prefix":"/tmp/probe/pilot/n","print every":0,"xyz":0,"checkpoint every":0,"h5":{}})
                m.run(mol,steps=1,remove_com=md)
            else:
                es=Electronic_Structure(s); es(mol)
        fin=bool(torch.isfinite(mol.Etot).all() and torch.isfinite(mol.force).all())
        res=f"ACCEPTED Etot={mol.Etot.tolist()} finite={fin} notconv={getattr(es,'notconverged',None).tolist() if not md else None}"
    except Exception as e:
        produced = mol is not None and mol.Etot is not None
        res=f"raised {type(e).__name__}: {str(e)[:70]!r} results_set={produced}"
    print(f"{label:38s} -> {res}")
b={"method":"AM1","scf_eps":1e-7,"scf_converger":[1]}
attempt("unsorted species",[[1,8,1]],[W],dict(b))
attempt("unsorted in 2nd row",[[8,1,1],[1,1,8]],[W,W],dict(b))
attempt("padding before atoms",[[0,8,1,1]],[[pad]+W],dict(b))
attempt("odd electrons RHF",[[8,1,0]],[W],dict(b))
attempt("UHF frac mult",[[8,1,1]],[W],dict(b,UHF=True),[0],[2])
attempt("UHF + pulay",[[8,1,1]],[W],dict(b,UHF=True,scf_converger=[2]),[0],[1])
attempt("UHF + sp2",[[8,1,1]],[W],dict(b,UHF=True,sp2=[True,1e-5]),[0],[1])
attempt("UHF + KSA conv",[[8,1,1]],[W],dict(b,UHF=True,scf_converger=[3,{"T_el":300,"max_rank":2,"err_threshold":0.0}]),[0],[1])
attempt("UHF + excited",[[8,1,1]],[W],dict(b,UHF=True,excited_states={"n_states":2}),[0],[1])
attempt("UHF + PM6",[[16,8,8]],[[[0.0,0,0],[1.43,0.02,0.01],[-0.70,1.25,0.0]]],dict(b,UHF=True,method="PM6"),[0],[1])
attempt("mixed batch RPA",[[8,6,1,1],[8,1,1,0]],[H2CO,W+[pad]],dict(b,excited_states={"n_states":2,"method":"rpa"}))
attempt("mixed batch CIS anal. excited grad",[[8,6,1,1],[8,1,1,0]],[H2CO,W+[pad]],dict(b,excited_states={"n_states":3},active_state=1))
attempt("active_state w/o excited_states",[[8,1,1]],[W],dict(b,active_state=1))
attempt("active_state > n_states",[[8,1,1]],[W],dict(b,excited_states={"n_states":2},active_state=5))
attempt("n_states > nov",[[1,1]],[[[0,0,0],[0.74,0,0.1]]],dict(b,excited_states={"n_states":3}))
attempt("unknown remove_com",[[8,1,1]],[W],dict(b),md=("spin",1))
attempt("element not in table (AM1 Li)",[[3,1]],[[[0,0,0],[1.6,0,0.1]]],dict(b))
attempt("element qn=4 (K, MNDO)",[[19,1]],[[[0,0,0],[2.2,0,0.1]]],dict(b,method="MNDO"))
attempt("He (PM6_SP)",[[2,2]],[[[0,0,0],[3.0,0,0.1]]],dict(b,method="PM6_SP"))
attempt("unknown method",[[8,1,1]],[W],dict(b,method="PM7"))
attempt("coincident atoms",[[8,1,1]],[[W[0],W[0],W[2]]],dict(b))
attempt("compressed 0.3A",[[1,1]],[[[0,0,0],[0.3,0,0.0]]],dict(b))
attempt("stretched 30A",[[1,1]],[[[0,0,0],[30.0,0.1,0.0]]],dict(b))
attempt("float32 coords",[[8,1,1]],[W],dict(b))
attempt("excited_states not dict",[[8,1,1]],[W],dict(b,excited_states=3))
attempt("scf_converger unknown [7]",[[8,1,1]],[W],dict(b,scf_converger=[7]))
attempt("NaN coordinate",[[8,1,1]],[[W[0],[float('nan'),0,0],W[2]]],dict(b))
