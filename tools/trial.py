"""developer tool: run one sub-check single-process and summarise outcomes.  usage: trial.py C01 fd 40 [seed]"""
import sys, time, json, collections, importlib, os
sys.path.insert(0, os.path.dirname(os.path.dirname(os.path.abspath(__file__))))
import hypothesis
from pv.worker import call_oracle
from hypothesis import given, settings, HealthCheck, Phase
mod = importlib.import_module("pv.props." + sys.argv[1].lower())
sub = {s.name: s for s in mod.SUBCHECKS}[sys.argv[2]]
n = int(sys.argv[3]); seed = int(sys.argv[4]) if len(sys.argv) > 4 else 1
tier = os.environ.get("TIER", "quick")
res = []
if n == 0:
    cases = list(sub.enumerate(tier))
    print(len(cases), "enumerated")
    for c in cases:
        t0 = time.time(); out = call_oracle(sub, c); res.append((c, out, time.time() - t0))
else:
    @hypothesis.seed(seed)
    @settings(max_examples=n, database=None, deadline=None, suppress_health_check=list(HealthCheck), phases=[Phase.generate])
    @given(sub.strategy(tier))
    def t(case):
        t0 = time.time(); out = call_oracle(sub, case); res.append((case, out, time.time() - t0))
    t()
c = collections.Counter(); nt = 0
for case, out, dt in res:
    c[out["status"] + ":" + out.get("bucket", out.get("reason", ""))] += 1
    nt += bool(out.get("nontrivial"))
for k, v in sorted(c.items()): print(v, k)
print("cases", len(res), "nontrivial", nt, "mean time %.3f max %.2f" % (sum(r[2] for r in res) / max(1, len(res)), max(r[2] for r in res)))
mx = {}
for case, out, dt in res:
    for k, v in (out.get("info") or {}).items():
        if isinstance(v, (int, float)) and (k not in mx or abs(v) > abs(mx[k][0])): mx[k] = (v, case)
for k, (v, case) in mx.items(): print("max", k, v, json.dumps(case)[:300])
lab = collections.Counter()
for case, out, dt in res:
    for l in out.get("labels", []): lab[l] += 1
if os.environ.get("LABELS"): print(dict(sorted(lab.items())))
seen = set()
for case, out, dt in res:
    if out["status"] == "fail" and out["bucket"] not in seen:
        seen.add(out["bucket"]); print("FAIL", out["bucket"], out["msg"][:300]); print("   ", json.dumps(case)[:600])
        fn = "/tmp/trial_fail_%s_%s_%s.json" % (sys.argv[1], sys.argv[2], "".join(ch if ch.isalnum() else "_" for ch in out["bucket"])[:40])
        json.dump({"property": sys.argv[1].upper(), "sub": sys.argv[2], "case": case, "bucket": out["bucket"], "msg": out["msg"]}, open(fn, "w")); print("    full case ->", fn)
