#!/bin/bash
# usage: tools/sweep.sh <seed> [<seed> ...]   -- runs every registered quick check at the given seeds, prints the summary lines
cd "$(dirname "$0")/.." || exit 2
ids=$(python3 -c "import json; print(' '.join(c['property_id'] for c in json.load(open('MANIFEST.json'))['checks']))")
for seed in "$@"; do
  for id in $ids; do
    out=$(VERIF_SEED=$seed ./check $id quick 2>&1); rc=$?
    echo "seed=$seed $id rc=$rc $(echo "$out" | grep 'violations=' | tail -1)"
    echo "$out" | grep "^VIOLATION\|^  sub=\|HARNESS" | cut -c1-260
  done
done
