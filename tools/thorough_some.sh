#!/bin/bash
# usage: tools/thorough_some.sh <id> [<id> ...]  -- runs the thorough tier of the given checks one after the other, prints the summary lines
cd "$(dirname "$0")/.." || exit 2
for id in "$@"; do
  out=$(./check $id thorough 2>&1); rc=$?
  echo "thorough $id rc=$rc $(echo "$out" | grep 'violations=' | tail -1)"
  echo "$out" | grep "^VIOLATION\|^  sub=\|HARNESS" | cut -c1-300
done
