#!/bin/bash
# offline setup: make sure hypothesis is importable by the repository's interpreter
PY=${VERIF_PYTHON:-/venv/bin/python}
if ! "$PY" -c "import hypothesis" 2>/dev/null; then
  "$PY" -m pip install --no-index --find-links /opt/veriftools/wheels hypothesis || exit 1
fi
"$PY" -c "import hypothesis, torch, h5py, numpy, scipy; print('setup ok: hypothesis', hypothesis.__version__)"
