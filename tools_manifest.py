#!/usr/bin/env python3
"""Regenerates MANIFEST.json from the table below (kept as code so that the file is always schema-valid)."""
import json, os
HERE = os.path.dirname(os.path.abspath(__file__))
CHECKS = {
 "C02": dict(design="3/C02", technique="metamorphic property-based testing (Hypothesis): rigid-motion covariance and one-run net-force/torque invariants over an orientation mixture concentrated on axis-aligned bonds",
             text="Generated search over template molecules x 5 methods x 3 force evaluators x rigid motions with >50% of the mass on exactly/nearly axis-aligned bonds; oracle = invariance/covariance relation between two runs and zero net force/torque of one run. Exploration: finds orientation-, method- or evaluator-specific breakage within seconds, proves nothing about unexplored inputs.",
             note="Assumes both runs reach the same SCF solution (near-equilibrium templates, adaptive mixing, eps<=1e-8); tolerances 10x above the largest deviation measured on the unchanged tree. PM6 z-pole gradient defect is a recorded known finding."),
}
NOT_APPLICABLE = []
def main():
    props = [json.loads(l)["id"] for l in open(os.path.join(HERE, "properties.jsonl"))]
    checks = []
    for pid in props:
        if pid not in CHECKS:
            continue
        c = CHECKS[pid]
        checks.append({
            "property_id": pid,
            "quick_cmd": f"./check {pid} quick",
            "thorough_cmd": f"./check {pid} thorough",
            "evidence_file": f"/verif/evidence/{pid}.json",
            "replay_cmd_template": f"./check {pid} --replay {{path}}",
            "engine": "pv",
            "level_claimed": {"category": c.get("level", "exploration"), "text": c["text"], "design_ref": "DESIGN.md section " + c["design"]},
            "level_note": c["note"],
            "technique": c["technique"],
        })
    na = [x for x in NOT_APPLICABLE]
    claimed = {c["property_id"] for c in checks}
    for pid in props:
        if pid not in claimed and pid not in {x["property_id"] for x in na}:
            na.append({"property_id": pid, "reason": "check not built yet in this tree (work in progress); no claim is made"})
    m = {
        "version": 1,
        "setup_cmd": "./setup.sh",
        "hooks": {"guard": "LANL_PYSEQM_VERIF", "enable": "no hooks are compiled into /repo; the checks import /repo's working tree directly and instrument it from the harness side (method wrappers, sys.settrace monitors)",
                  "baseline_off_cmd": "cd /repo && /venv/bin/python -m pytest -ra -q -p no:cacheprovider --timeout=900 --continue-on-collection-errors",
                  "source_commits": [], "add_only": True},
        "engines": [{"name": "pv", "path": "/verif/pv", "serves_properties": sorted(claimed),
                     "kind_free_text": "Hypothesis-driven property-based testing harness: 16 single-threaded worker processes, seeded from VERIF_SEED, collect->exclude->minimise failure buckets, JSON replay files, known_findings.json"}],
        "checks": checks,
        "notes": "All checks: exit 0 held / 1 VIOLATION / 2 harness error. VERIF_SEED selects the Hypothesis seed; VERIF_REPO (default /repo) the tree under test.",
        "not_applicable": na,
    }
    json.dump(m, open(os.path.join(HERE, "MANIFEST.json"), "w"), indent=1)
    try:
        import jsonschema
        jsonschema.validate(m, json.load(open("/root/.vp/MANIFEST.schema.json")))
        print("MANIFEST.json valid;", len(checks), "checks,", len(na), "not claimed")
    except ImportError:
        print("written (jsonschema not available)")
if __name__ == "__main__":
    main()
