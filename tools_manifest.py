#!/usr/bin/env python3
"""Regenerates MANIFEST.json from the table below (kept as code so that the file is always schema-valid)."""
import json, os
HERE = os.path.dirname(os.path.abspath(__file__))
CHECKS = {
 "C02": dict(design="3/C02", technique="metamorphic property-based testing (Hypothesis): rigid-motion covariance and one-run net-force/torque invariants over an orientation mixture concentrated on axis-aligned bonds",
             text="Generated search over template molecules x 5 methods x 3 force evaluators x rigid motions with >50% of the mass on exactly/nearly axis-aligned bonds; oracle = invariance/covariance relation between two runs and zero net force/torque of one run. Exploration: finds orientation-, method- or evaluator-specific breakage within seconds, proves nothing about unexplored inputs.",
             note="Assumes both runs reach the same SCF solution (near-equilibrium templates, adaptive mixing, eps<=1e-8); tolerances 10x above the largest deviation measured on the unchanged tree. PM6 z-pole gradient defect is a recorded known finding."),
 "C01": dict(design="3/C01", technique="property-based differential testing (Hypothesis): 4-point finite differences of the returned energy at three step sizes vs the returned force, pairwise agreement of the three force evaluators, exact-zero padding force",
             text="Generated search over the template library (every element of every sp table) x 4 methods x 3 force evaluators x solvers x RHF neutrals/ions/UHF radicals x single/homogeneous/zero-padded batches x ground and CIS/RPA excited surfaces. A discrepancy counts only if it is consistent across three step sizes and the centre energy lies on the stencil's SCF branch. Exploration: finds element-, method-, evaluator- or layout-specific gradient errors down to 2e-5 (autodiff) / 2e-4 eV/A; no claim about unexplored inputs.",
             note="Assumes the SCF reaches one smooth solution branch along each 4e-3 A stencil (checked from energies; otherwise inconclusive, counted in evidence). SP2 cases are decided by evaluator agreement only. Bonds with a heavy atom along +/-x fall into the recorded C02 frame-singularity finding."),
 "C11": dict(design="3/C11", technique="model-based property testing: exhaustive enumeration of the small cadence lattice plus Hypothesis-generated cadence tuples, compared with a reference model of due steps and with a cadence-1 reference run",
             text="The real run loop, OutputConfig, HDF5Writer, XYZWriter and checkpoint code are driven with an analytic stub force field. Quick enumerates all 1250 points of {0..4}^4 x {6,12} steps and 1500 generated tuples (cadences up to 50 and steps+1, xyz/print/checkpoint, molid subsets, BOMD/Langevin, fresh and crashed-and-resumed). Every stream must hold exactly {0} u multiples of its own cadence, no filler rows, values equal to the cadence-1 run. The lattice sub-domain is exhaustive; the rest is exploration.",
             note="Electronic structure replaced by a stub (the property concerns output code only); XL-BOMD/FSSH-specific streams are not covered by the stub engine. Screen and checkpoint streams: only positive multiples asserted, as the manual promises."),
 "C14": dict(design="3/C14", technique="property-based testing of cross-observable identities (Hypothesis), with an independent NumPy NDDO reference for atomic energies, heats, Fock eigenvalues, the energy functional and the dipole; metamorphic translation law",
             text="Every identity of the statement is evaluated on the attributes returned by one generated calculation (4 methods, neutrals/ions/UHF radicals, three solvers, single and zero-padded batches, S0 and CIS/RPA active states): energy partition, heat of formation from independently derived atomic energies, gap vs orbital energies, eigenvalues of the independently built Fock operator of the reported density, charges from the density, dipole from charges+hybridisation and its translation law. Exploration with algebraic bounds (1e-9) four orders above the measured round-off.",
             note="The independent reference (pv/refnddo.py) is my reading of the published equations, validated against this code at design time; Fock-eigenvalue clause only for MNDO/AM1/PM3 RHF <= 20 orbitals; PM6 (d orbitals) excluded because its dipole is not implemented."),
 "C17": dict(design="3/C17", technique="property-based testing (Hypothesis) of algebraic invariants on real SurfaceHoppingDynamics objects: convergence order against a refined reference, alone-vs-batch differentials, history-vs-fresh-object differentials, energy bookkeeping of the real hop update",
             text="Six generated sub-checks drive the repository's _propagate_electronic, _attempt_hop, _rescale_velocity_along_nac, _detect_crossings and _after_electronic_update: 4th-order convergence of the amplitudes and unitarity of the converged limit; hop probabilities in [0,1], row sum <= 1, equal alone and in a batch (incl. batches with one member on a coupling spike); velocity adjustment parallel to d/m, exact energy conservation, smaller root, frustrated hops untouched; relabelling is a permutation; crossing detection independent of earlier events on the same object; batch update conserves each member's own energy and equals its single-trajectory result. Exploration, ~40k cases per quick run.",
             note="Objects are built without electronic structure the way tests/test_nonadiabatic.py builds them (private attributes); NAC vectors and forces come from the harness through the same hooks the repository's TullyFSSH overrides. Full SCF-driven FSSH histories are not part of this check. The >=3-cycle relabelling defect is a recorded known finding."),
 "C18": dict(design="3/C18", technique="mutation-based property testing (Hypothesis): one documented precondition violated per generated case (negative side) and boundary-stretching of valid inputs (positive side)",
             text="Negative side: 15 mutation operators, one per precondition enumerated in the property statement, applied to generated valid cases over 4 methods; oracle = an exception is raised and no result attribute (Etot, force, dm, q, Hf) of the molecule has been set. Positive side: templates scaled to 0.5-30 A, charges up to +-4, table-edge elements, three solvers; oracle = all results finite or the non-convergence flag set. Exploration: ~3000 cases per quick run.",
             note="Any Exception subclass counts as a loud rejection. Operators for preconditions the statement does not enumerate (element outside the table, active state beyond n_states) were removed after they turned out to be oracle over-reach."),
 "C03": dict(design="3/C03", technique="property-based testing (Hypothesis) of residual invariants computed from the returned density with an independent NumPy Fock build; iteration-cap fault injection for the 'never silently converged' clause; deterministic loop-iteration monitor (sys.settrace) for termination",
             text="Generated molecules and zero-padded batches (neutrals, ions, UHF radicals; MNDO/AM1/PM3) x solver lattice (fixed mixing alpha 0..0.9, adaptive, Pulay, SP2 1e-3..1e-7) x eps 1e-4..1e-11 x five kinds of starting density x iteration caps 1..1000. For every row flagged converged the harness recomputes symmetry, trace, charge sum, idempotency, commutator with the independently rebuilt Fock operator, distance to the aufbau projector of that operator and the energy functional, against bounds derived from the code's own stopping criterion and calibrated on the unchanged tree (margins 3-12x, reported per run). A monitor hit (SP2 loop > 2000 passes) is a termination violation. Exploration.",
             note="Residuals rest on pv/refnddo.py (floor 2e-5 eV); only MNDO/AM1/PM3 rows of <= 20 orbitals; KSA solver not generated. 'Bounded time' is decided by loop-iteration counts on the explored inputs. SP2 non-termination for batches containing an anion is a recorded known finding."),
 "C05": dict(design="3/C05", technique="differential property-based testing (Hypothesis): every row of a generated batch vs the same molecule alone; same-element transposition as a metamorphic relation; short MD trajectories alone vs batched",
             text="Generated batches of 2-4 molecules of different size, composition and charge (RHF or UHF), random order, extra padding width 0-3, padding coordinates zero / random / 1e6 / coincident with a real atom, 4 methods, fixed / adaptive / Pulay / SP2, three force evaluators, optional CIS: Etot, Hf, forces, charges, orbital energies, dipole and CIS energies of each row must equal the single-molecule result (1e-9 for fixed/adaptive mixing; measured 1e-10). Transposing two atoms of the same element must permute per-atom outputs exactly. 5-8 step BOMD and XL-BOMD trajectories with explicit velocities must agree alone vs batched (measured 2e-13). Exploration.",
             note="Langevin and surface hopping are not compared path-wise (one noise stream over the whole batch tensor). Two recorded known findings: Pulay's batch-global DIIS restart (another SCF solution), heterogeneous CIS replacing a non-positive root by a padding zero."),
 "C13": dict(design="3/C13", technique="property-based testing (Hypothesis) of the real MD initialisation / COM-removal / seeding code over a stub force field; differential runs for seeding (same seed with different prior RNG consumption, different seeds)",
             text="Generated zero-padded batches of bent, linear, diatomic and single-heavy-atom molecules x temperatures incl. 0 K x seeds x prior RNG consumption x remove_com modes and strides x BOMD / Langevin x optional user-supplied velocity fields (random, pure translation, pure rotation, zero, non-zero on padding). Oracles from step-0 HDF5 rows and the live molecule: exact initial temperature under the n_dof in force, zero linear (and requested angular) momentum, padding at rest, bitwise reproducibility of a seed regardless of RNG history, different seeds differ, user velocities used as given. Exploration, ~1600 cases per quick run.",
             note="Force field is an analytic stub (the property concerns initialisation code only); temperature identity uses the repository's own unit constants. Four recorded findings: user velocities passed through COM removal, diatomic + angular removal gives n_dof = 0, padding atoms acquire velocities (repair candidate under test)."),
 "C12": dict(design="3/C12", technique="property-based testing (Hypothesis): algebraic fluctuation-dissipation identity on the real thermostat object against CODATA constants; seeded statistical tests (chi-square per element after one step from an exact Maxwell-Boltzmann sample, block-averaged long-run temperature) with >= 5-6 sigma bands; limiting-case differentials (tau -> infinity vs NVE, T = 0 dissipative)",
             text="2000 generated (dt, tau, T, element masses, padding) tuples with dt/tau over 1e-4..10: c1 = exp(-dt/2tau), c1^2 + c2^2 m/(k_B T) = 1 per real atom to 2e-6 of (1-c1^2) (measured 4e-8, the repository's unit constant vs CODATA), no noise on padding or at T = 0. 48 seeded runs of 720 free / softly bound atoms of all element masses: Maxwell-Boltzmann at T invariant under one step (5 sigma per element) and long-run kinetic temperature equal to T (6 standard errors + 0.4 %). tau -> infinity: deviation from the NVE trajectory vanishes like tau^-1/2; T = 0: no net energy gain. Exploration.",
             note="Statistical statements are deterministic functions of VERIF_SEED; a bias below ~1 % of T is invisible. Force field is an analytic stub. Damped XL-BOMD / KSA / surface hopping inherit the same thermostat methods and are not run separately here."),
 "C08": dict(design="3/C08", technique="metamorphic property-based testing (Hypothesis) over FAMILIES of runs of the real NVE integrator: dt / dt/2 / dt/4 refinement, forward / velocity-reversed pairs, long runs; invariants and bookkeeping read back from the HDF5 files; independent NumPy re-evaluation of the potential; CODATA reference for the acceleration constant",
             text="Stub-driven families (96 per quick run, each 5 runs of 20-6000 steps): linear and angular momentum constant (measured 5e-15), return to the start after velocity reversal (3e-15 A), position-error and energy-fluctuation ratios per halving in [3.0, 5.6] where the coarsest step resolves the fastest vibration (measured 4.00-4.01), no drift of the mean energy over 15 periods of the slowest mode, stored Ek / T / Ep equal to those of the stored velocities / coordinates of the same row, acceleration constant equal to the CODATA conversion to 1e-6 (measured 4e-8). SCF-driven sample (water, formaldehyde, ammonia; AM1/PM3): momentum, stored Ep and forces equal to an independent single point at the stored coordinates. Exploration.",
             note="Force field of the large families is an analytic stub; the coupling to the real Electronic_Structure is exercised by 32 short SCF-driven runs. Order and drift are asymptotic statements judged only in the resolved regime (labels order_resolved / drift_checked show how often). Excited-state surfaces are not run here."),
 "C20": dict(design="3/C20", technique="property-based testing (Hypothesis) with a recording wrapper around the real optimiser step: per-iteration update / staleness / stop-condition invariants, metamorphic step-factor rule for descent, alone-vs-batch path differential, constructed boundary case cap == evaluations needed",
             text="Generated distorted templates (1-2 molecules, optional padding) x step factors 1e-4..2e-2 x force tolerances x evaluation caps 1..40 (incl. the constructed case cap == needed) x 3 methods x 3 solvers. Per iteration: x_(i+1) - x_i = alpha F_i with F_i and E_i equal to a fresh single point at x_i, padding bitwise unmoved; the loop ends at the first max|F| <= tol or at the cap and the optimiser's own final line says converged / not converged accordingly; returned values are those of the last evaluation; an energy increase counts only if it persists at alpha/4 and alpha/16; a molecule's path equals its single-molecule path. Exploration, SCF-driven.",
             note="Energies / forces are compared only for iterations whose SCF converged (large step factors can produce geometries where it does not). The 'reported not converged although the tolerance was reached on the last allowed evaluation' defect is recorded (repair under validation)."),
}
NOT_APPLICABLE = []
def main():
    props = [json.loads(l)["id"] for l in open(os.path.join(HERE, "properties.jsonl"))]
    checks = []
    for pid in props:
        if pid not in CHECKS:
            continue
        c = CHECKS[pid]
        checks.append({
            "property_id": pid,
            "quick_cmd": f"./check {pid} quick",
            "thorough_cmd": f"./check {pid} thorough",
            "evidence_file": f"/verif/evidence/{pid}.json",
            "replay_cmd_template": f"./check {pid} --replay {{path}}",
            "engine": "pv",
            "level_claimed": {"category": c.get("level", "exploration"), "text": c["text"], "design_ref": "DESIGN.md section " + c["design"]},
            "level_note": c["note"],
            "technique": c["technique"],
        })
    na = [x for x in NOT_APPLICABLE]
    claimed = {c["property_id"] for c in checks}
    for pid in props:
        if pid not in claimed and pid not in {x["property_id"] for x in na}:
            na.append({"property_id": pid, "reason": "check not built yet in this tree (work in progress); no claim is made"})
    m = {
        "version": 1,
        "setup_cmd": "./setup.sh",
        "hooks": {"guard": "LANL_PYSEQM_VERIF", "enable": "no hooks are compiled into /repo; the checks import /repo's working tree directly and instrument it from the harness side (method wrappers, sys.settrace monitors)",
                  "baseline_off_cmd": "cd /repo && /venv/bin/python -m pytest -ra -q -p no:cacheprovider --timeout=900 --continue-on-collection-errors",
                  "source_commits": [], "add_only": True},
        "engines": [{"name": "pv", "path": "/verif/pv", "serves_properties": sorted(claimed),
                     "kind_free_text": "Hypothesis-driven property-based testing harness: 16 single-threaded worker processes, seeded from VERIF_SEED, collect->exclude->minimise failure buckets, JSON replay files, known_findings.json"}],
        "checks": checks,
        "notes": "All checks: exit 0 held / 1 VIOLATION / 2 harness error. VERIF_SEED selects the Hypothesis seed; VERIF_REPO (default /repo) the tree under test.",
        "not_applicable": na,
    }
    json.dump(m, open(os.path.join(HERE, "MANIFEST.json"), "w"), indent=1)
    try:
        import jsonschema
        jsonschema.validate(m, json.load(open("/root/.vp/MANIFEST.schema.json")))
        print("MANIFEST.json valid;", len(checks), "checks,", len(na), "not claimed")
    except ImportError:
        print("written (jsonschema not available)")
if __name__ == "__main__":
    main()
