"""pv -- property-based verification machinery for lanl/PYSEQM (see /verif/DESIGN.md).

Importing this package fixes the process-wide settings every check relies on:
single-threaded torch, float64, repository imported from VERIF_REPO (default /repo).
"""
import os
import sys
import warnings

VERIF_ROOT = os.path.dirname(os.path.dirname(os.path.abspath(__file__)))
REPO = os.path.abspath(os.environ.get("VERIF_REPO", "/repo"))

if REPO not in sys.path[:1]:
    sys.path.insert(0, REPO)

os.environ.setdefault("OMP_NUM_THREADS", "1")
os.environ.setdefault("MKL_NUM_THREADS", "1")
os.environ.setdefault("LANL_PYSEQM_VERIF", "1")
warnings.filterwarnings("ignore")


def init_torch(threads=1):
    import torch

    torch.set_num_threads(threads)
    torch.set_default_dtype(torch.float64)
    import seqm  # noqa: F401

    here = os.path.abspath(seqm.__file__)
    if not here.startswith(REPO + os.sep):
        raise RuntimeError(f"seqm imported from {here}, expected under {REPO}")
    return torch
