"""Deterministic termination monitors (DESIGN 1.5): count executions of loop-header lines with sys.settrace and raise
NonTermination above a bound far beyond anything a terminating call needs. Independent of wall clock and machine load."""
import inspect
import sys


class NonTermination(BaseException):
    """raised from inside the monitored loop; BaseException so that generic `except Exception` in oracles or in the
    code under test cannot swallow it"""

    def __init__(self, loop, bound):
        super().__init__(f"{loop} exceeded {bound} loop iterations")
        self.loop = loop
        self.bound = bound


def _loop_lines(func, startswith):
    src, start = inspect.getsourcelines(func)
    return {start + i for i, l in enumerate(src) if l.strip().startswith(startswith)}


class LoopMonitor:
    def __init__(self, targets, bound):
        # targets: {code object: (name, set(line numbers of loop headers))}
        self.targets = targets
        self.bound = bound
        self.counts = {}
        self.maxcount = {}

    def _global(self, frame, event, arg):
        if event == "call" and frame.f_code in self.targets:
            self.counts[id(frame)] = 0
            return self._local
        return None

    def _local(self, frame, event, arg):
        if event == "line":
            name, lines = self.targets[frame.f_code]
            if frame.f_lineno in lines:
                c = self.counts[id(frame)] = self.counts.get(id(frame), 0) + 1
                if c > self.maxcount.get(name, 0):
                    self.maxcount[name] = c
                if c > self.bound:
                    sys.settrace(None)
                    raise NonTermination(name, self.bound)
        elif event == "return":
            self.counts.pop(id(frame), None)
        return self._local

    def __enter__(self):
        self._prev = sys.gettrace()
        sys.settrace(self._global)
        return self

    def __exit__(self, *a):
        sys.settrace(self._prev)
        return False


_SP2 = None


def sp2_monitor(bound=2000):
    """SP2 purification needs 20-40 iterations on converging inputs; 2000 is 50x that."""
    global _SP2
    if _SP2 is None:
        import seqm.seqm_functions.SP2 as mod

        lines = _loop_lines(mod.SP2, "while ")
        if not lines:
            raise RuntimeError("SP2 loop header not found: monitor needs updating")
        _SP2 = {mod.SP2.__code__: ("SP2", lines)}
    return LoopMonitor(_SP2, bound)
