"""C13 -- initial conditions, centre-of-mass handling and seeding behave as documented (DESIGN 3/C13).

Stub-driven (analytic force field under the real MD classes): the property concerns initialize_velocity, _zero_com, the
seeding in run() and the handling of user-supplied velocities. Observed from the molecule object after the run and from the
HDF5 rows the repository's writer produced.
"""
import os
import shutil
import tempfile

import h5py
import numpy as np
from hypothesis import strategies as st

from .. import stubforce
from ..core import Outcome, SubCheck
from ..seqm_api import Constants, Molecule, silence, tonp, torch

PROPERTY = "C13"
LEVEL = "exploration"
RULE = ("Hypothesis draws a zero-padded batch of 1-3 molecules (bent, linear, single heavy atom, diatomic), temperature {0} u [1,3000] K, "
        "seed, prior RNG consumption (0-50 draws), remove_com in {None, linear/N, angular/N}, engine {BOMD, Langevin}, optional "
        "user-supplied velocity field {random, pure translation, rigid rotation, zero, non-zero on padding}; oracles on step-0 and "
        "later rows. non-trivial = T > 0 or supplied velocities with non-zero linear/angular momentum; distinct = case hash")
ASSUMPTIONS = ["force field replaced by an analytic pair-spring stub; velocity initialisation, COM removal, seeding and output are the repository's code",
               "temperature identity uses the repository's KINETIC_ENERGY_SCALE / TEMPERATURE_SCALE (the constants are C08's / C12's subject)"]

MOLS = {
    "water": ([8, 1, 1], [[0.0, 0.0, 0.0], [0.76, 0.59, 0.1], [-0.76, 0.59, -0.05]]),
    "co2": ([8, 8, 6], [[1.16, 0.0, 0.0], [-1.16, 0.0, 0.0], [0.0, 0.0, 0.0]]),          # linear
    "methane": ([6, 1, 1, 1, 1], [[0, 0, 0], [0.63, 0.63, 0.63], [-0.63, -0.63, 0.63], [-0.63, 0.63, -0.63], [0.63, -0.63, -0.63]]),
    "hcl": ([17, 1], [[0.0, 0.0, 0.0], [0.9, 0.7, 0.4]]),                                  # diatomic
    "so2": ([16, 8, 8], [[0.0, 0.0, 0.0], [1.2, 0.7, 0.1], [-1.2, 0.7, -0.2]]),
}
ROT0 = np.array([[0.36, 0.48, -0.8], [-0.8, 0.6, 0.0], [0.48, 0.64, 0.6]])  # proper rotation: nothing axis aligned


@st.composite
def _case(draw):
    names = draw(st.lists(st.sampled_from(sorted(MOLS)), min_size=1, max_size=3))
    case = {"mols": names, "padw": draw(st.integers(0, 2)), "T": draw(st.sampled_from([0.0, 1.0, 77.0, 300.0, 300.0, 1000.0, 3000.0])),
            "seed": draw(st.integers(0, 1000)), "prior": draw(st.integers(0, 50)), "prior_size": draw(st.integers(1, 200)),
            "remove_com": draw(st.sampled_from([None, None, ["linear", 1], ["linear", 3], ["angular", 1], ["angular", 2]])),
            "engine": draw(st.sampled_from(["bomd", "bomd", "langevin"])), "steps": draw(st.integers(2, 5)),
            "padxyz": draw(st.sampled_from(["zeros", "far"]))}
    if draw(st.integers(0, 2)) == 0:
        case["user_v"] = draw(st.sampled_from(["random", "translation", "rotation", "zero", "padding_nonzero", "internal", "internal"]))
        case["vseed"] = draw(st.integers(0, 1000))
    if draw(st.integers(0, 3)) == 0:
        case["reuse_driver"] = True
    return case


def _build(case):
    rows = []
    for k, nm in enumerate(case["mols"]):
        Z, x = MOLS[nm]
        rows.append((Z, np.array(x, dtype=float) @ ROT0.T + np.array([3.0 * k, -2.0 * k, 1.0 * k])))
    width = max(len(r[0]) for r in rows) + case["padw"]
    S = np.zeros((len(rows), width), dtype=np.int64)
    X = np.zeros((len(rows), width, 3))
    for b, (Z, x) in enumerate(rows):
        S[b, :len(Z)] = Z
        X[b, :len(Z)] = x
        if case["padxyz"] == "far":
            X[b, len(Z):] = 40.0 + 7.0 * np.arange(width - len(Z))[:, None]
    return rows, S, X


def _user_velocities(case, rows, S, X, mass):
    rng = np.random.default_rng(case["vseed"])
    V = np.zeros_like(X)
    kind = case["user_v"]
    for b, (Z, x) in enumerate(rows):
        n = len(Z)
        if kind in ("random", "padding_nonzero"):
            V[b, :n] = rng.normal(size=(n, 3)) * 0.01
        elif kind == "translation":
            V[b, :n] = np.array([0.01, -0.004, 0.007])
        elif kind == "rotation":
            c = (mass[b, :n, None] * x).sum(0) / mass[b, :n].sum()
            V[b, :n] = np.cross(np.array([0.0, 0.0, 0.02]), x - c)
        elif kind == "internal":
            v = rng.normal(size=(n, 3)) * 0.01
            m = mass[b, :n]
            v -= (m[:, None] * v).sum(0) / m.sum()
            c = (m[:, None] * x).sum(0) / m.sum()
            r = x - c
            L = (m[:, None] * np.cross(r, v)).sum(0)
            I = (m * (r * r).sum(1)).sum() * np.eye(3) - (m[:, None, None] * r[:, :, None] * r[:, None, :]).sum(0)
            v -= np.cross(np.broadcast_to(np.linalg.pinv(I) @ L, r.shape), r)
            V[b, :n] = v
        if kind == "padding_nonzero":
            V[b, n:] = 0.05
    return V


def _run(case, rows, S, X, workdir, tag, seed=None, prior=None, user_v=None):
    """one MD run. With case['reuse_driver'] the SAME driver object first performs a decoy run (other temperature, other
    remove_com mode, another molecule object of the same shape); the judged run follows on that used driver."""
    import seqm.MolecularDynamics as MDmod

    stubforce.install()
    s = {"method": "AM1", "scf_eps": 1e-8, "scf_converger": [1]}
    s[stubforce.KEY] = stubforce.spec_for(S.tolist(), X.tolist(), k=15.0, stretch=1.04)
    prefix = os.path.join(workdir, tag)
    out = {"molid": list(range(len(rows))), "prefix": prefix, "print every": 0, "xyz": 0, "checkpoint every": 0,
           "h5": {"data": 1, "coordinates": 1, "velocities": 1, "forces": 0}}
    with silence():
        mol = Molecule(Constants(), s, torch.tensor(X), torch.tensor(S))
        if user_v is not None:
            mol.velocities = torch.tensor(user_v)
        if case["engine"] == "langevin":
            md = MDmod.Molecular_Dynamics_Langevin(damp=40.0, seqm_parameters=s, Temp=case["T"], timestep=0.5, output=out)
        else:
            md = MDmod.Molecular_Dynamics_Basic(seqm_parameters=s, Temp=case["T"], timestep=0.5, output=out)
        rc = tuple(case["remove_com"]) if case["remove_com"] else None
        if case.get("reuse_driver"):
            decoy = Molecule(Constants(), s, torch.tensor(X[::-1].copy()), torch.tensor(S[::-1].copy()))
            drc = ("angular", 2) if (rc is None or rc[0] == "linear") else None
            if any(len(r[0]) == 2 for r in rows):
                drc = ("linear", 2) if rc is None else None      # stay clear of the recorded diatomic/angular finding
            md.output_config.prefix = prefix + "_decoy"
            md.run(decoy, steps=2, remove_com=drc, seed=4242)
            md.output_config.prefix = prefix
        torch.manual_seed(12345)
        for _ in range(case["prior"] if prior is None else prior):
            torch.randn(case["prior_size"])
        md.run(mol, steps=case["steps"], remove_com=rc, seed=case["seed"] if seed is None else seed)
    h5 = {}
    for m in range(len(rows)):
        with h5py.File(f"{prefix}.{m}.h5", "r") as f:
            h5[m] = {k: f[k][...] for k in ("velocities/values", "coordinates/values", "data/thermo/T", "data/thermo/Ek")}
    return mol, md, h5


class InitialConditions(SubCheck):
    name = "initial_conditions"
    budget = {"quick": 1600, "thorough": 40000}
    weight = 1.0

    def strategy(self, tier):
        return _case()

    def oracle(self, case):
        import seqm.MolecularDynamics as MDmod

        C = MDmod.CONSTANTS
        rows, S, X = _build(case)
        B, width = S.shape
        labels = ["engine:" + case["engine"], "T:%g" % case["T"], "remove_com:%s" % (case["remove_com"][0] if case["remove_com"] else None),
                  "user_v:%s" % case.get("user_v"), "reuse_driver:%s" % bool(case.get("reuse_driver")), "padded:%s" % any(len(r[0]) < width for r in rows), "mols:" + "+".join(sorted(set(case["mols"])))]
        const = Constants()
        mass = tonp(const.mass)[S]
        user_v = _user_velocities(case, rows, S, X, mass) if case.get("user_v") else None
        nontrivial = case["T"] > 0 or case.get("user_v") in ("random", "translation", "rotation", "padding_nonzero")
        wd = tempfile.mkdtemp(prefix="c13_", dir=os.getcwd())
        try:
            try:
                mol, md, h5 = _run(case, rows, S, X, wd, "a", user_v=user_v)
            except Exception as e:
                if case.get("user_v") in ("zero", "translation", "rotation") and "Zero kinetic energy" in str(e):
                    # one root cause with user_velocities_modified below: supplied velocities are passed through _zero_com,
                    # which strips translation and rotation; a zero or purely rigid-body field leaves nothing and the
                    # kinetic-energy guard raises
                    return Outcome.fail("user_velocities_passed_through_com_removal", f"supplying a {case['user_v']} velocity field raises {type(e).__name__}: {e}", labels, nontrivial)
                diatomic_angular = (case["engine"] == "bomd" and case["remove_com"] and case["remove_com"][0] == "angular"
                                    and any(len(r[0]) == 2 for r in rows))
                if diatomic_angular and "Zero kinetic energy" in str(e):
                    # recorded finding: n_dof = 3N - 6 for ('angular', N) regardless of linearity (the source carries a TODO);
                    # a diatomic gets n_dof = 0, the temperature rescaling divides by zero, velocities are scaled to 0 and
                    # the kinetic-energy guard raises a misleading error for a valid request
                    return Outcome.fail("diatomic_with_angular_com_removal_ndof_zero", f"{type(e).__name__}: {e} (a row is a diatomic and remove_com=('angular', N))", labels, nontrivial)
                if case["T"] == 0.0 and user_v is None and case["remove_com"] and "Zero kinetic energy" in str(e):
                    return Outcome.fail("zero_temperature_with_com_removal_rejected", f"T=0 with remove_com raises {type(e).__name__}: {e}", labels, False)
                return Outcome.fail(f"exception:{type(e).__name__}", f"{type(e).__name__}: {str(e)[:200]}", labels, nontrivial)
            info = {}
            diatomic_angular = (case["engine"] == "bomd" and case["remove_com"] and case["remove_com"][0] == "angular"
                                and any(len(r[0]) == 2 for r in rows))
            for b, (Z, x) in enumerate(rows):
                n = len(Z)
                m = mass[b, :n]
                if diatomic_angular and n == 2 and not np.isfinite(h5[b]["data/thermo/T"]).all():
                    return Outcome.fail("diatomic_with_angular_com_removal_ndof_zero", f"row {b}: stored temperatures {h5[b]['data/thermo/T'].tolist()[:3]}... (n_dof = 3N-6 = 0 for a diatomic)", labels, nontrivial)
                v0 = h5[b]["velocities/values"][0]
                x0 = h5[b]["coordinates/values"][0]
                # padding at rest (observed on the live object: the files hold real atoms only)
                vpad = tonp(mol.velocities)[b, n:]
                xpad = tonp(mol.coordinates)[b, n:]
                if user_v is None or case["user_v"] != "padding_nonzero":
                    if vpad.size and np.any(vpad != 0.0):
                        return Outcome.fail("padding_atoms_not_at_rest", f"row {b}: padding velocities up to {np.abs(vpad).max():.3e} A/fs after {case['steps']} steps "
                                            f"(padding coordinates moved by {np.abs(xpad - X[b, n:]).max():.3e} A)", labels, nontrivial)
                if user_v is not None:
                    # "velocities supplied by the user are the velocities the first step starts from"
                    if case["user_v"] == "internal":
                        dv = float(np.abs(v0 - user_v[b, :n]).max())
                        if dv > 1e-12:
                            return Outcome.fail("user_internal_velocities_modified", f"row {b}: supplied velocities without net linear/angular momentum are changed by {dv:.3e} A/fs", labels, True)
                        continue
                    if case["user_v"] != "zero" and not np.array_equal(v0, user_v[b, :n]):
                        dv = float(np.abs(v0 - user_v[b, :n]).max())
                        P = (m[:, None] * user_v[b, :n]).sum(0)
                        kind = "translation" if np.abs(P).max() > 1e-12 else "rotation_only"
                        return Outcome.fail("user_velocities_passed_through_com_removal", f"row {b}: stored step-0 velocities differ from the supplied ones by {dv:.3e} A/fs "
                                            f"(supplied field: {case['user_v']}, net momentum {np.abs(P).max():.2e})", labels, nontrivial)
                    continue
                ndof = 3.0 * n
                if case["engine"] == "bomd" and case["remove_com"]:
                    ndof -= 6.0 if case["remove_com"][0] == "angular" else 3.0
                ek = 0.5 * float((m[:, None] * v0 ** 2).sum()) * C.KINETIC_ENERGY_SCALE
                T0 = ek * C.TEMPERATURE_SCALE / (0.5 * ndof) if ndof > 0 else 0.0
                if case["T"] == 0.0:
                    if np.any(v0 != 0.0):
                        return Outcome.fail("nonzero_velocities_at_zero_temperature", f"row {b}: T=0 but step-0 velocities are not zero", labels, nontrivial)
                    continue
                rel = abs(T0 - case["T"]) / case["T"]
                info["T0_rel"] = max(info.get("T0_rel", 0.0), rel)
                if rel > 1e-10:
                    return Outcome.fail("initial_temperature_not_realised", f"row {b} ({case['mols'][b]}, n_dof={ndof:g}): T(0) from the stored velocities = {T0:.8f} K, requested {case['T']}", labels, nontrivial)
                d = abs(float(h5[b]["data/thermo/T"][0]) - T0) / case["T"]
                if d > 1e-10:
                    return Outcome.fail("stored_temperature_inconsistent_with_velocities", f"row {b}: stored T(0) {float(h5[b]['data/thermo/T'][0])} vs from velocities {T0}", labels, nontrivial)
                P = (m[:, None] * v0).sum(0)
                pscale = float((m[:, None] * np.abs(v0)).sum())
                info["P_rel"] = max(info.get("P_rel", 0.0), float(np.abs(P).max()) / pscale)
                if np.abs(P).max() > 1e-10 * pscale:  # round-off: up to 1.3e-12 for diatomics (singular inertia tensor in the rotation removal)
                    return Outcome.fail("net_linear_momentum_at_start", f"row {b}: |sum m v| / sum m|v| = {np.abs(P).max() / pscale:.3e}", labels, nontrivial)
                if case["remove_com"] and case["remove_com"][0] == "angular" and n > 1:
                    c = (m[:, None] * x0).sum(0) / m.sum()
                    L = (m[:, None] * np.cross(x0 - c, v0)).sum(0)
                    # scale = sum m |r| |v| (not sum m |r x v|: for a diatomic the remaining velocity is along the bond, every
                    # r x v is round-off and the first version divided round-off by round-off -- a false alarm of the oracle)
                    lscale = float((m * np.linalg.norm(x0 - c, axis=1) * np.linalg.norm(v0, axis=1)).sum())
                    if lscale > 0 and np.abs(L).max() > 1e-9 * lscale:
                        return Outcome.fail("net_angular_momentum_at_start", f"row {b}: |L| / scale = {np.abs(L).max() / lscale:.3e}", labels, nontrivial)
            if case["remove_com"] and (user_v is None or case.get("user_v") == "internal"):
                stride = int(case["remove_com"][1])
                for b, (Z, x) in enumerate(rows):
                    n = len(Z)
                    if n == 2 and case["remove_com"][0] == "angular":
                        continue
                    m = mass[b, :n]
                    V, Xs = h5[b]["velocities/values"], h5[b]["coordinates/values"]
                    for j in range(1, V.shape[0]):
                        if (j - 1) % stride:
                            continue            # removal is applied inside loop index i = j-1 when i % stride == 0
                        P = (m[:, None] * V[j]).sum(0)
                        ps = float((m[:, None] * np.abs(V[j])).sum())
                        if ps > 0 and np.abs(P).max() > 1e-10 * ps:
                            return Outcome.fail("periodic_com_removal_leaves_linear_momentum", f"row {b}, step {j} (right after a {case['remove_com'][0]} removal, {case['engine']}): |sum m v| / sum m|v| = {np.abs(P).max() / ps:.3e}", labels, True)
                        if case["remove_com"][0] == "angular" and n > 2:
                            c = (m[:, None] * Xs[j]).sum(0) / m.sum()
                            L = (m[:, None] * np.cross(Xs[j] - c, V[j])).sum(0)
                            ls = float((m * np.linalg.norm(Xs[j] - c, axis=1) * np.linalg.norm(V[j], axis=1)).sum())
                            if ls > 0 and np.abs(L).max() > 1e-8 * ls:
                                return Outcome.fail("periodic_com_removal_leaves_angular_momentum", f"row {b}, step {j}: |L| / scale = {np.abs(L).max() / ls:.3e}", labels, True)
            stochastic = case["engine"] == "langevin"
            if user_v is not None and not (stochastic and case["user_v"] == "internal"):
                return Outcome.ok(nontrivial, labels, **info)
            # seeding: same seed => bitwise identical regardless of prior RNG consumption; another seed => different
            mol2, _, h5b = _run(case, rows, S, X, wd, "b", prior=(case["prior"] + 7) % 60, user_v=user_v)
            for b in range(B):
                for key in h5[b]:
                    if not np.array_equal(h5[b][key], h5b[b][key], equal_nan=True):
                        return Outcome.fail("seed_not_reproducible_across_rng_history", f"row {b} {key}: same seed, different prior RNG consumption -> different output", labels, nontrivial)
            if case["T"] > 0:
                try:
                    _, _, h5c = _run(case, rows, S, X, wd, "c", seed=case["seed"] + 1, user_v=user_v)
                except RuntimeError as e:
                    if "Zero kinetic energy after removing COM momentum" in str(e):
                        # the code refuses loudly a draw whose whole kinetic energy is centre-of-mass motion (first full thorough run,
                        # seed 1, one case in 37505): nothing to compare -- this call had no handler and became a harness error
                        return Outcome.inconclusive("zero_kinetic_energy_after_com_removal", labels)
                    raise
                row = 0 if user_v is None else -1      # with supplied velocities the seed shows in the thermostat noise of later rows
                if all(np.array_equal(h5[b]["velocities/values"][row], h5c[b]["velocities/values"][row]) for b in range(B)):
                    return Outcome.fail("seed_has_no_effect", "a different seed gives an identical trajectory" if user_v is not None else "a different seed gives identical initial velocities", labels, nontrivial)
            return Outcome.ok(nontrivial, labels, **info)
        finally:
            shutil.rmtree(wd, ignore_errors=True)

    def simplify(self, case):
        if len(case["mols"]) > 1:
            for i in range(len(case["mols"])):
                yield dict(case, mols=case["mols"][:i] + case["mols"][i + 1:])
        if case["padw"]:
            yield dict(case, padw=0)
        if case["remove_com"]:
            yield dict(case, remove_com=None)
        if case["engine"] != "bomd":
            yield dict(case, engine="bomd")
        if case["prior"]:
            yield dict(case, prior=0)


SUBCHECKS = [InitialConditions()]
