"""C10 -- a run killed at any instant and resumed equals the uninterrupted run (DESIGN 3/C10).

One case = one MD job + a sequence of 1..3 crash plans (faults.py). The uninterrupted reference, the crashing run and every
resumed run execute in forked children; after each crash the next child resumes from `{prefix}.restart.pt` if it exists
(otherwise the job is simply started again, which is what a user without a checkpoint does). After the last resume:

  * every dataset of every `{prefix}.{mol}.h5` equals the reference dataset exactly (np.array_equal, NaN == NaN),
    no dataset missing or extra;
  * every `{prefix}.{mol}.xyz` equals the reference file (each due frame once, in order, same text);
  * the final checkpoint holds the same step, coordinates and velocities as the reference's final checkpoint.
  * a resume that raises (unloadable / incomplete checkpoint, HDF5 file that cannot be reopened) is a violation.

The stub engine (analytic springs under the real BOMD/Langevin classes) gives breadth; SCF-driven tiny molecules cover the
engines whose state lives in the electronic structure (XL-BOMD k=3..9, damped, KSA, excited-state BOMD/XL-BOMD, FSSH).
"""
import glob
import hashlib
import json
import os
import shutil
import tempfile

import h5py
import numpy as np
from hypothesis import strategies as st

from .. import faults, stubforce
from .. import molecules as M
from ..core import Outcome, SubCheck, case_hash
from ..seqm_api import Constants, Molecule, pad_batch, torch
from .c11 import COORDS, SPECIES

PROPERTY = "C10"
LEVEL = "fault_enumeration"
RULE = ("Hypothesis draws an MD job (engine, 4-14 steps, checkpoint cadence 1-7, data/coordinates/velocities/forces/xyz(/nonadiabatic) "
        "cadences in {0,1,2,3,5}, reuse_P, COM removal, batch rows / molid subset) and 1-3 crash plans: the N-th executed statement of "
        "seqm/MolecularDynamics.py + NonadiabaticDynamics.py (N uniform over the reference run's statement count), the j-th statement of "
        "the k-th call of a named function (checkpoint writer/loader, HDF5/XYZ writers, flush, integrator step), or a torch.save torn "
        "after a drawn fraction of its bytes; modes hard (os._exit, buffers lost) and soft (BaseException, finally runs). "
        "non-trivial = a crash fired strictly after the first checkpoint or inside writer/checkpoint code, or >= 2 crashes fired; "
        "distinct = case hash. every_statement: one fixed 5-step stub job per engine, a single crash at every statement index (thorough; every 5th index in "
        "quick) x {hard, soft}.")
ASSUMPTIONS = ["crash instants are Python statement boundaries of the two MD modules plus byte-level tearing of torch.save; tearing inside "
               "an HDF5 library write and kernel/page-cache reordering after power loss are not modelled",
               "stub engine: forces come from an analytic spring field; run loop, writers and checkpoint code are the repository's",
               "a wall-clock SIGKILL is replaced by its deterministic equivalent (os._exit at a drawn statement), so every failure replays"]

FUNCS_STUB = ["save_checkpoint", "_atomic_save_checkpoint", "_build_checkpoint_base", "_save_checkpoint_and_report", "_flush_all", "flush",
              "append_data", "append_vectors", "write", "one_step", "run", "initialize", "run_from_checkpoint", "_load_checkpoint_base",
              "_open_resume", "open", "close", "_restore_molecule_from_ckpt"]
FUNCS = FUNCS_STUB + ["_do_integrator_step", "_propagate_P"]
FUNCS_FSSH = ["append_nonadiabatic", "_apply_resume_state", "_after_electronic_update", "_propagate_electronic"]
SCF_ENGINES = ["fssh", "ksa", "es_xl", "xl_damp", "xl", "es_basic", "langevin", "basic"]
TINY = {"ground": ["H2", "LiH", "H2O", "HF", "NH3", "CH4", "H3O+", "OH-"], "excited": ["H2O", "H2CO", "NH3", "HF"]}


# ------------------------------------------------------------------------------------------------------------- job bodies
def _fresh(job, prefix):
    import seqm.MolecularDynamics as MD

    eng = job["engine"]
    if job["force"] == "stub":
        stubforce.install()
        nrow = job["nrow"]
        sp = torch.tensor(SPECIES[:nrow])
        xyz = torch.tensor(COORDS[:nrow], dtype=torch.float64)
        s = {"method": "AM1", "scf_eps": 1e-8, "scf_converger": [1]}
        s[stubforce.KEY] = stubforce.spec_for(SPECIES[:nrow], COORDS[:nrow], k=25.0, stretch=1.05)
    else:
        stubforce.uninstall()
        geoms = [M.geometry({"tpl": t, "amp": 0.06, "disp": [((7 * i + 3 * b) % 11 - 5) / 5.0 for i in range(3 * len(M.ALL[t]["Z"]))]})
                 for b, t in enumerate(job["tpls"])]
        S, X = pad_batch([(list(z), x) for z, x in geoms], width=max(len(g[0]) for g in geoms) + job.get("padw", 0))
        sp, xyz = torch.tensor(S), torch.tensor(X)
        s = {"method": job["method"], "scf_eps": 1e-8, "scf_converger": [1]}
        if eng in ("es_basic", "es_xl"):
            s.update({"excited_states": {"n_states": 3}, "active_state": 1})
        if eng == "fssh":
            s.update({"excited_states": {"n_states": 2, "method": "cis"}})
    cad = job["cad"]
    h5 = {"data": cad["data"], "coordinates": cad["coordinates"], "velocities": cad["velocities"], "forces": cad["forces"]}
    if eng == "fssh":
        h5["nonadiabatic"] = cad.get("nonadiabatic", 0)
    out = {"molid": list(job["molid"]), "prefix": prefix, "print every": 0, "xyz": cad["xyz"], "checkpoint every": cad["checkpoint"], "h5": h5}
    kw = {}
    if eng == "basic" or eng == "es_basic":
        cls = MD.Molecular_Dynamics_Basic
    elif eng == "langevin":
        cls, kw = MD.Molecular_Dynamics_Langevin, {"damp": 30.0}
    elif eng in ("xl", "es_xl"):
        cls, kw = MD.XL_BOMD, {"xl_bomd_params": {"k": job.get("k", 5)}}
    elif eng == "xl_damp":
        cls, kw = MD.XL_BOMD, {"xl_bomd_params": {"k": job.get("k", 5)}, "damp": 30.0}
    elif eng == "ksa":
        cls, kw = MD.KSA_XL_BOMD, {"xl_bomd_params": {"k": job.get("k", 5), "max_rank": 2, "err_threshold": 0.0, "T_el": 1500}}
    elif eng == "fssh":
        from seqm.NonadiabaticDynamics import SurfaceHoppingDynamics

        cls, kw = SurfaceHoppingDynamics, {"initial_state": 1}
    if job["force"] == "scf" and any(M.ALL[t].get("charge", 0) for t in job["tpls"]):
        mol = Molecule(Constants(), s, xyz, sp, charges=torch.tensor([M.ALL[t].get("charge", 0) for t in job["tpls"]]))
    else:
        mol = Molecule(Constants(), s, xyz, sp)
    md = cls(seqm_parameters=s, Temp=300.0, timestep=0.4, output=out, **kw)
    rc = job.get("remove_com")
    md.run(mol, steps=job["steps"], seed=job.get("seed", 3), reuse_P=job.get("reuse_P", True), remove_com=tuple(rc) if rc else None,
           **(job.get("run_kw") or {}))


def _resume(job, prefix):
    import seqm.MolecularDynamics as MD

    if job["force"] == "stub":
        stubforce.install()
    else:
        stubforce.uninstall()
    if job["engine"] == "fssh":
        from seqm.NonadiabaticDynamics import SurfaceHoppingDynamics

        SurfaceHoppingDynamics.run_from_checkpoint(prefix + ".restart.pt")
    else:
        MD.Molecular_Dynamics_Basic.run_from_checkpoint(prefix + ".restart.pt")


# ---------------------------------------------------------------------------------------------------------------- compare
def _h5_diffs(ref, got):
    diffs = []
    with h5py.File(ref, "r") as a, h5py.File(got, "r") as b:
        names_a, names_b = [], []
        a.visititems(lambda n, o: names_a.append(n) if isinstance(o, h5py.Dataset) else None)
        b.visititems(lambda n, o: names_b.append(n) if isinstance(o, h5py.Dataset) else None)
        for n in sorted(set(names_a) - set(names_b)):
            diffs.append((n, "missing after resume"))
        for n in sorted(set(names_b) - set(names_a)):
            diffs.append((n, "not in the uninterrupted run"))
        for n in sorted(set(names_a) & set(names_b)):
            x, y = a[n][...], b[n][...]
            if x.shape != y.shape:
                diffs.append((n, f"shape {x.shape} vs {y.shape}"))
            elif not np.array_equal(x, y, equal_nan=(x.dtype.kind == "f")):
                if n.endswith("steps"):
                    diffs.append((n, f"steps {y.tolist()} expected {x.tolist()}"))
                else:
                    with np.errstate(all="ignore"):
                        bad = np.argwhere(~((x == y) | (np.isnan(x) & np.isnan(y)) if x.dtype.kind == "f" else (x == y)))
                        diffs.append((n, "max|diff| %.3e, first differing row %d" % (float(np.nanmax(np.abs(x.astype(float) - y.astype(float)))), int(bad[0][0]) if bad.size else -1)))
    return diffs


def _xyz_steps(path):
    return [int(ln.split()[1]) for ln in open(path) if ln.startswith("step:")]


def _ckpt_state(path):
    c = torch.load(path, map_location="cpu", weights_only=False)
    m = c["molecules"]
    return c["step_done"], m["coordinates"].numpy(), m["velocities"].numpy()


# ----------------------------------------------------------------------------------------------------------------- oracle
def _labels(job, plans):
    lb = ["engine:" + job["engine"], "force:" + job["force"], "ckpt_every:%d" % job["cad"]["checkpoint"], "crashes_planned:%d" % len(plans),
          "reuse_P:%s" % job.get("reuse_P", True), "run_kw:%s" % (sorted(job["run_kw"])[0] if job.get("run_kw") else "none")]
    for p in plans:
        lb.append("plan:%s/%s" % (p["kind"], p.get("mode", "hard")))
    return lb


def evaluate(job, plans, keep=None):
    wd = tempfile.mkdtemp(prefix="pv_c10_")
    try:
        return _evaluate(job, plans, wd)
    finally:
        if keep:
            shutil.copytree(wd, keep, dirs_exist_ok=True)
        shutil.rmtree(wd, ignore_errors=True)


def _evaluate(job, plans, wd):
    labels = _labels(job, plans)
    os.makedirs(wd + "/ref")
    os.makedirs(wd + "/run")
    notes_p, err_p = wd + "/notes.json", wd + "/err.txt"
    refp, runp = wd + "/ref/job", wd + "/run/job"
    code, rn = faults.run_segment(lambda: _fresh(job, refp), None, notes_p, err_p)
    if code != 0:
        err = open(err_p).read()[-400:] if os.path.exists(err_p) else ""
        if code == 98 and "not converge" in err.lower():
            return Outcome.inconclusive("reference_run_failed_scf", labels)
        raise RuntimeError(f"C10 reference run failed (code {code}) for job {json.dumps(job)}: {err}")
    n_ref = int(rn.get("events_total", 0))
    if os.path.exists(refp + ".restart.pt"):
        _, x_ref, v_ref = _ckpt_state(refp + ".restart.pt")
        if not (np.isfinite(x_ref).all() and np.isfinite(v_ref).all()):
            return Outcome.inconclusive("reference_trajectory_not_finite", labels)
    ck = job["cad"]["checkpoint"]
    fired, sites, nontrivial = 0, [], False
    seg = 0
    queue = list(plans) + [None]
    history = []
    while queue:
        plan = queue.pop(0)
        resumable = os.path.exists(runp + ".restart.pt")
        if plan is not None:
            plan = dict(plan)
            if plan["kind"] == "line" and "n" not in plan:
                plan["frac"] = _frac(job, plan["salt"], seg)
                # the fraction is resolved against the statement count the segment is expected to execute
                if seg == 0 or not resumable:
                    total = n_ref
                else:
                    done = _ckpt_state(runp + ".restart.pt")[0]
                    total = max(20, int(n_ref * (job["steps"] - done) / max(job["steps"], 1)))
                plan["n"] = 1 + int(plan["frac"] * (total - 1))
        body = (lambda: _resume(job, runp)) if resumable else (lambda: _fresh(job, runp))
        if os.path.exists(err_p):
            os.remove(err_p)
        code, notes = faults.run_segment(body, plan, notes_p, err_p)
        history.append({"segment": seg, "start": "resume" if resumable else "fresh", "plan": plan, "exit": code, "crash_at": notes.get("crash_at")})
        seg += 1
        if code == -1:
            return Outcome.inconclusive("segment_watchdog", labels)
        if code == 98:
            err = open(err_p).read() if os.path.exists(err_p) else ""
            last = err.strip().splitlines()[-1][:200] if err.strip() else "?"
            nontrivial = nontrivial or fired > 0
            bucket = "resume_raises" if resumable else "restart_raises"
            if resumable and job["engine"] == "fssh" and not job.get("reuse_P", True) and "cis_amplitudes is required" in err:
                bucket = "fssh_resume_impossible_when_reuse_P_false"
            return Outcome.fail(bucket, f"{'resume from checkpoint' if resumable else 'fresh start'} after {history[:-1]} raised: {last}", labels, True,
                                history=history, error=err[-1500:])
        if code in (3, 137):
            fired += 1
            where = notes.get("crash_at") or "?"
            sites.append(where)
            fn = where.split(":")[0]
            labels.append("site:" + fn)
            done_before = notes.get("events_before_crash", 0)
            if fn not in ("_do_integrator_step", "one_step", "run", "_kinetic_energy", "_calc_temperature", "_thermo_potential") or fired >= 2:
                nontrivial = True
            if os.path.exists(runp + ".restart.pt") and fn in ("run", "_do_integrator_step", "one_step"):
                nontrivial = True           # crash after a checkpoint exists: rows/frames beyond it may be on disk
            continue
        if code == 0:
            if plan is not None:
                labels.append("plan_overshoot")
            break
        raise RuntimeError(f"C10 unexpected child exit code {code}")
    else:
        return Outcome.inconclusive("all_segments_crashed", labels)
    labels.append("crashes_fired:%d" % fired)
    info = {"crashes_fired": fired, "sites": sites, "statements_in_reference": n_ref}
    if fired == 0:
        nontrivial = False
    # --- compare
    problems = []
    for m in job["molid"]:
        a, b = f"{refp}.{m}.h5", f"{runp}.{m}.h5"
        if os.path.exists(a) != os.path.exists(b):
            problems.append(("h5_file", f"{os.path.basename(b)} exists={os.path.exists(b)}, reference exists={os.path.exists(a)}"))
        elif os.path.exists(a):
            try:
                d = _h5_diffs(a, b)
            except OSError as e:
                problems.append(("h5_unreadable", f"{os.path.basename(b)}: {str(e)[:120]}"))
                d = []
            for n, what in d[:6]:
                problems.append(("h5:" + n, what))
        a, b = f"{refp}.{m}.xyz", f"{runp}.{m}.xyz"
        if os.path.exists(a) != os.path.exists(b):
            problems.append(("xyz_file", f"{os.path.basename(b)} exists={os.path.exists(b)}"))
        elif os.path.exists(a) and open(a).read() != open(b).read():
            sa, sb = _xyz_steps(a), _xyz_steps(b)
            if sa != sb:
                problems.append(("xyz_frames", f"molecule {m}: frames {sb}, uninterrupted run has {sa}"))
            else:
                problems.append(("xyz_text", f"molecule {m}: same frame list, different text"))
    ra, rb = refp + ".restart.pt", runp + ".restart.pt"
    if os.path.exists(ra) != os.path.exists(rb):
        problems.append(("final_checkpoint", f"final checkpoint exists={os.path.exists(rb)}, reference exists={os.path.exists(ra)}"))
    elif os.path.exists(ra):
        sa, sb = _ckpt_state(ra), _ckpt_state(rb)
        if sa[0] != sb[0] or not np.array_equal(sa[1], sb[1]) or not np.array_equal(sa[2], sb[2]):
            problems.append(("final_checkpoint", f"step_done {sb[0]} vs {sa[0]}, max|dx| {np.abs(sa[1] - sb[1]).max():.3e}, max|dv| {np.abs(sa[2] - sb[2]).max():.3e}"))
    if problems:
        kinds = sorted({p[0].split(":")[0] for p in problems})
        modes = sorted({(h["plan"] or {}).get("mode", "hard") if (h["plan"] or {}).get("kind") != "torn" else "hard" for h in history if h["exit"] in (3, 137)})
        bucket = _bucket(job, problems, kinds, modes)
        msg = "; ".join(f"{k}: {w}" for k, w in problems[:4])
        return Outcome.fail(bucket, f"after {[(h['start'], h['crash_at'], h['exit']) for h in history]}: {msg}", labels, True, history=history, **info)
    return Outcome.ok(nontrivial, labels, **info)


def _bucket(job, problems, kinds, modes):
    if kinds == ["xyz_frames"]:
        return "xyz_frames_repeated_or_missing_after_resume"
    if job.get("run_kw"):
        return "run_keyword_options_lost_on_resume"
    if job["engine"] == "fssh" and all(k in ("h5",) for k in kinds) and all(("nonadiabatic" in p[0]) for p in problems):
        return "fssh_nonadiabatic_stream_differs_after_resume"
    if "h5" in kinds:
        return "h5_content_differs_after_resume"
    return "+".join(kinds)


# -------------------------------------------------------------------------------------------------------------- generators
def _cad(draw, steps, fssh=False):
    c = {"checkpoint": draw(st.sampled_from([2, 3, 1, 2, 3, 4, 5, 7])), "data": draw(st.sampled_from([0, 1, 1, 2, 3, 5])),
         "coordinates": draw(st.sampled_from([0, 1, 2, 3, 5])), "velocities": draw(st.sampled_from([0, 0, 1, 2, 3])),
         "forces": draw(st.sampled_from([0, 0, 1, 2, 5])), "xyz": draw(st.sampled_from([0, 1, 1, 2, 3]))}
    c["checkpoint"] = min(c["checkpoint"], max(1, steps - 1))
    if fssh:
        c["nonadiabatic"] = draw(st.sampled_from([0, 1, 1, 2]))
        c["data"] = max(c["data"], 1)
    if not any(c[k] for k in ("data", "coordinates", "velocities", "forces", "xyz")):
        c["data"] = 1
    return c


def _frac(job, salt, i):
    """uniform in [0,1) as a pure function of the case: Hypothesis skews wide integer/float ranges towards 0 (measured: 88 % of
    directly drawn fractions below 0.1, most crashes inside __init__), a hash of (salt, job, position) does not"""
    h = hashlib.sha1(("%d/%d/%s" % (salt, i, case_hash(job))).encode()).hexdigest()
    return int(h[:8], 16) / 2.0 ** 32


@st.composite
def _plan(draw, funcs):
    kind = draw(st.sampled_from(["line", "line", "line", "func", "func", "torn"]))
    if kind == "line":
        return {"kind": "line", "salt": draw(st.integers(0, 2 ** 31)), "mode": draw(st.sampled_from(["hard", "soft"]))}
    if kind == "func":
        return {"kind": "func", "func": draw(st.sampled_from(funcs)), "occ": draw(st.integers(1, 5)), "line": draw(st.integers(1, 12)),
                "mode": draw(st.sampled_from(["hard", "soft"]))}
    return {"kind": "torn", "occ": draw(st.integers(1, 4)), "frac": draw(st.sampled_from([0.0, 0.02, 0.3, 0.7, 0.97, 0.999])), "mode": "hard"}


# run() options used by examples/Test3_BOMD.ipynb; None three times out of five
_RUN_KW = st.sampled_from([None, None, None, {"scale_vel": [2, 350.0]}, {"control_energy_shift": True}])


@st.composite
def _stub_case(draw):
    steps = draw(st.integers(4, 14))
    nrow = draw(st.integers(1, 3))
    molid = draw(st.lists(st.integers(0, nrow - 1), min_size=1, max_size=nrow, unique=True).map(sorted))
    job = {"force": "stub", "engine": draw(st.sampled_from(["basic", "langevin"])), "nrow": nrow, "molid": molid, "steps": steps,
           "cad": _cad(draw, steps), "reuse_P": draw(st.booleans()), "seed": draw(st.integers(0, 5)),
           "remove_com": draw(st.sampled_from([None, None, ["linear", 1], ["angular", 2]])), "run_kw": draw(_RUN_KW)}
    return {"job": job, "plans": draw(st.lists(_plan(FUNCS_STUB), min_size=1, max_size=3))}


@st.composite
def _scf_case(draw):
    eng = draw(st.sampled_from(SCF_ENGINES))
    steps = draw(st.integers(4, 12))
    method = draw(st.sampled_from(["AM1", "PM3", "MNDO"]))
    ok = set(M.names(method, ("neutral", "ion"), 5, 2))
    pool = [t for t in TINY["excited" if eng in ("es_basic", "es_xl", "fssh") else "ground"] if t in ok]
    if eng == "ksa":
        pool = [t for t in pool if t != "H2"]      # KSA-XL-BOMD itself fails on a hydrogen-only molecule (zero-size heavy-atom blocks): no reference run
    nmol = draw(st.integers(1, 2))
    if eng in ("es_basic", "es_xl", "fssh"):
        t = draw(st.sampled_from(pool))
        tpls = [t] * nmol                  # heterogeneous excited-state batches have recorded C05/C16 findings of their own
        padw = 0
    else:
        tpls = [draw(st.sampled_from(pool)) for _ in range(nmol)]
        tpls.sort(key=lambda t: -len(M.ALL[t]["Z"]))
        padw = draw(st.integers(0, 1))
    job = {"force": "scf", "engine": eng, "method": method, "tpls": tpls, "padw": padw, "molid": list(range(nmol)) if draw(st.booleans()) else [nmol - 1],
           "steps": steps, "cad": _cad(draw, steps, fssh=(eng == "fssh")), "reuse_P": draw(st.booleans()), "seed": draw(st.integers(0, 5)),
           "k": draw(st.integers(3, 9)), "remove_com": draw(st.sampled_from([None, None, ["linear", 1]])),
           "run_kw": draw(_RUN_KW) if eng in ("basic", "langevin") else None}
    return {"job": job, "plans": draw(st.lists(_plan(FUNCS + FUNCS_FSSH if eng == "fssh" else FUNCS), min_size=1, max_size=3))}


class StubEngine(SubCheck):
    name = "stub_engine"
    budget = {"quick": 480, "thorough": 12000}
    weight = 1.0

    def strategy(self, tier):
        return _stub_case()

    def oracle(self, case):
        return evaluate(case["job"], case["plans"])


class ScfEngines(SubCheck):
    name = "scf_engines"
    budget = {"quick": 128, "thorough": 4000}
    weight = 3.0

    def strategy(self, tier):
        return _scf_case()

    def oracle(self, case):
        return evaluate(case["job"], case["plans"])


class EveryStatement(SubCheck):
    """exhaustive sub-domain: one fixed stub job per engine, a single crash at EVERY statement index, both modes"""
    name = "every_statement"
    budget = {"quick": 0, "thorough": 0}
    shards = {"quick": 8, "thorough": 16}
    weight = 1.0
    JOBS = [{"force": "stub", "engine": e, "nrow": 2, "molid": [0, 1], "steps": s, "reuse_P": True, "seed": 1, "remove_com": None,
             "cad": {"checkpoint": 2, "data": 1, "coordinates": 2, "velocities": 3, "forces": 0, "xyz": 1}} for e, s in (("basic", 5), ("langevin", 5))]

    def enumerate(self, tier):
        stride = 5 if tier == "quick" else 1
        for j, job in enumerate(self.JOBS):
            n = self._count(job)
            for i in range(1, n + 1, stride):
                for mode in ("hard", "soft"):
                    yield {"job": job, "plans": [{"kind": "line", "n": i, "mode": mode}]}

    _counts = {}

    def _count(self, job):
        key = job["engine"]
        if key not in self._counts:
            wd = tempfile.mkdtemp(prefix="pv_c10n_")
            try:
                code, notes = faults.run_segment(lambda: _fresh(job, wd + "/job"), None, wd + "/n.json", wd + "/e.txt")
                if code != 0:
                    raise RuntimeError("C10 counting run failed")
                self._counts[key] = int(notes["events_total"])
            finally:
                shutil.rmtree(wd, ignore_errors=True)
        return self._counts[key]

    def oracle(self, case):
        return evaluate(case["job"], case["plans"])


SUBCHECKS = [StubEngine(), ScfEngines(), EveryStatement()]
