"""C06 -- energies equal the published NDDO model evaluated on the shipped parameters (DESIGN 3/C06).

Oracle = pv/refnddo.py, an independent NumPy/SciPy evaluation of the published equations (Slater overlaps by quadrature,
Dewar-Thiel point-charge multipoles with Klopman-Ohno terms solved by brentq, method-specific core-core terms) reading the
shipped CSV tables with its own parser.
 L1 pair integrals : every element pair of each method's table x distance log-uniform in [0.6, 15] A x orientation mixture:
                     one-electron matrix, two-centre two-electron integrals, pair core-core energy
 L2 operators      : the repository's Fock builders (restricted and unrestricted) applied to random symmetric trial densities
                     vs the reference contraction; linearity G(aP1+bP2) = aG(P1)+bG(P2); symmetry of F
 L3 SCF            : seqm's converged answer IS an answer of the independent model: E_ref[P] = Eelec, Enuc_ref = Enuc,
                     Hf from independently derived atomic energies and heats
"""
import math

import numpy as np
from hypothesis import strategies as st

from .. import molecules as M
from .. import strategies as S
from ..core import Outcome, SubCheck
from ..seqm_api import Constants, Molecule, notconv, run_sp, settings, silence, tonp, torch

PROPERTY = "C06"
LEVEL = "exploration"
RULE = ("L1: Hypothesis draws method {MNDO, AM1, PM3} x ordered element pair from the method's table x distance 10^u, u uniform over "
        "[log 0.6, log 15] x orientation {generic, +-x, +-y, +-z aligned}; L2: 2-4 atom templates x random symmetric trial densities "
        "(non-idempotent, with s-p and p-p' blocks) x RHF / UHF; L3: templates incl. ions and radicals. non-trivial: L1 every case "
        "(pair class and distance decade recorded), L2 density with non-zero off-diagonal blocks, L3 converged; distinct = case hash")
ASSUMPTIONS = ["the reference is my reading of the published equations (Dewar-Thiel 1977, MOPAC manual), validated against this code at design time on 1096 pair cases and 223 molecules: a shared misunderstanding is possible",
               "bounds: matrix elements 1e-5 eV (measured maxima: Hcore 1.7e-6, w 4e-9, Enuc 3e-13), Fock elements 2e-5, energies 5e-5",
               "PM6 / PM6_SP are outside this property"]

IDX = [(0, 0), (1, 0), (1, 1), (2, 0), (2, 1), (2, 2), (3, 0), (3, 1), (3, 2), (3, 3)]
AXIS = {"+x": (1, 0, 0), "-x": (-1, 0, 0), "+y": (0, 1, 0), "-y": (0, -1, 0), "+z": (0, 0, 1), "-z": (0, 0, -1)}


def _row(z):
    return 1 if z <= 2 else (2 if z <= 10 else 3)


@st.composite
def _pair_case(draw):
    method = draw(st.sampled_from(["MNDO", "AM1", "PM3"]))
    els = sorted(M.POOL[method], reverse=True)
    a = draw(st.sampled_from(els))
    b = draw(st.sampled_from(els))
    za, zb = max(a, b), min(a, b)
    u = draw(st.integers(0, 1000)) / 1000.0
    r = 0.6 * (15.0 / 0.6) ** u
    orient = draw(st.sampled_from(["generic", "generic", "generic", "+x", "-x", "+y", "-y", "+z", "-z"]))
    return {"method": method, "za": za, "zb": zb, "r": round(r, 4), "orient": orient, "q": [draw(S.q3) for _ in range(3)]}


class PairIntegrals(SubCheck):
    name = "pair_integrals"
    budget = {"quick": 4000, "thorough": 120000}
    weight = 1.0

    def strategy(self, tier):
        return _pair_case()

    def oracle(self, case):
        from seqm.basics import Energy
        from seqm.seqm_functions.energy import pair_nuclear_energy
        from seqm.seqm_functions.hcore import hcore

        from .. import refnddo as R

        meth, za, zb, r = case["method"], case["za"], case["zb"], case["r"]
        if case["orient"] == "generic":
            u = np.array(case["q"], dtype=float)
            u = u / np.linalg.norm(u) if np.linalg.norm(u) > 1e-3 else np.array([0.36, 0.48, -0.8])
        else:
            u = np.array(AXIS[case["orient"]], dtype=float)
        X = np.array([[0.1, -0.2, 0.3], np.array([0.1, -0.2, 0.3]) + u * r])
        Z = [za, zb]
        cls = "%d-%d" % (max(_row(za), _row(zb)), min(_row(za), _row(zb)))
        labels = ["method:" + meth, "pair:" + cls, "decade:" + ("<1" if r < 1 else "<2" if r < 2 else "<4" if r < 4 else "<8" if r < 8 else ">=8"), "orient:" + case["orient"]]
        ne = R.core_charge(za) + R.core_charge(zb)
        s = settings(meth, 1e-8, (1,), (False,))
        try:
            with silence():
                mol = Molecule(Constants(), s, torch.tensor([X]), torch.tensor([Z]), charges=torch.tensor([ne % 2]))
                en = Energy(s)
                with torch.no_grad():
                    Mh, w, rho0xi, rho0xj, riXH, ri = hcore(mol)
                    parnuc = en._build_parnuc(mol.parameters)
                    EnucAB = pair_nuclear_energy(mol.Z, mol.const, mol.nmol, mol.ni, mol.nj, mol.idxi, mol.idxj, mol.rij, rho0xi, rho0xj, mol.alp, mol.chi,
                                                 gam=w[..., 0, 0], method=meth, parameters=parnuc)
            mod = R.Model(meth, Z, X)
        except Exception as e:
            return Outcome.fail(f"exception:{type(e).__name__}", f"{type(e).__name__}: {str(e)[:200]}", labels)
        Hs = tonp(Mh).reshape(2, 2, 4, 4).transpose(0, 2, 1, 3).reshape(8, 8)
        Hs = np.triu(Hs) + np.triu(Hs, 1).T
        dH = float(np.abs(mod.from_seqm_P(Hs) - mod.H).max())
        W = mod.pairW[(0, 1)]
        wref = np.array([[W[a, b, c, d] for (c, d) in IDX] for (a, b) in IDX])
        dw = float(np.abs(tonp(w[0]) - wref).max())
        dEn = abs(float(EnucAB[0]) - mod.enuc())
        for name, d, tol in (("one_electron_matrix", dH, 1e-5), ("two_electron_integrals", dw, 1e-5), ("core_core_energy", dEn, 1e-5 * max(1.0, abs(mod.enuc()) * 1e-3))):
            if d > tol:
                return Outcome.fail(f"{name}:{meth}:{cls}", f"{meth} pair Z=({za},{zb}) at r={r} A ({case['orient']}): {name} differs from the published model by {d:.3e} eV", labels, True, **{name: d})
        return Outcome.ok(True, labels, dHcore=dH, dw=dw, dEnuc=dEn)


def _fock_inputs(mol):
    from seqm.seqm_functions.hcore import hcore

    with torch.no_grad():
        Mh, w, *_ = hcore(mol)
    p = mol.parameters
    args = (mol.nmol, mol.molsize, None, Mh, mol.maskd, mol.mask, mol.idxi, mol.idxj, w, torch.tensor([0]), p["g_ss"], p["g_pp"], p["g_sp"], p["g_p2"], p["h_sp"],
            mol.method, p["zeta_s"], p["zeta_p"], p["zeta_d"], mol.Z, p["F0SD"], p["G2SD"])
    return args


@st.composite
def _op_case(draw):
    method = draw(st.sampled_from(["MNDO", "AM1", "PM3"]))
    tpl = draw(st.sampled_from([t for t in M.names(method, ("neutral",), 4, 2) if M.n_orbitals(t) <= 16]))
    n = len(M.ALL[tpl]["Z"])
    return {"mol": {"method": method, "tpl": tpl, "amp": 0.1, "disp": draw(st.lists(S.q3, min_size=3 * n, max_size=3 * n))}, "uhf": draw(st.booleans()),
            "seed": draw(st.integers(0, 10 ** 6)), "a": draw(S.q3) * 2, "b": draw(S.q3) * 2}


class Operators(SubCheck):
    name = "operators"
    budget = {"quick": 900, "thorough": 25000}
    weight = 1.5

    def strategy(self, tier):
        return _op_case()

    def oracle(self, case):
        from seqm.seqm_functions.fock import fock
        from seqm.seqm_functions.fock_u_batch import fock_u_batch

        from .. import refnddo as R

        Z, x = M.geometry(case["mol"])
        meth = case["mol"]["method"]
        labels = ["method:" + meth, "uhf:%s" % case["uhf"], "tpl:" + case["mol"]["tpl"]]
        s = settings(meth, 1e-8, (1,), (False,), uhf=case["uhf"])
        nel = M.n_electrons(case["mol"]["tpl"])
        with silence():
            mol = Molecule(Constants(), s, torch.tensor(np.array([x])), torch.tensor(np.array([Z])), mult=1)
        args = list(_fock_inputs(mol))
        ref = R.Model(meth, list(Z), np.asarray(x))
        nao = ref.nao
        rng = np.random.default_rng(case["seed"])

        def trial():
            A = rng.normal(size=(nao, nao)) * 0.3
            P = 0.5 * (A + A.T) + np.eye(nao) * 0.5
            return P

        def embed(Pr):
            # place the reference-ordered matrix into seqm's 4-slots-per-atom layout
            full = np.zeros((4 * len(Z), 4 * len(Z)))
            keep = [4 * a + k for a, z in enumerate(Z) for k in range(1 if z == 1 else 4)]
            full[np.ix_(keep, keep)] = Pr
            return full

        def seqm_fock(Pa, Pb=None):
            if Pb is None:
                args[2] = torch.tensor(embed(Pa)).unsqueeze(0)
                with torch.no_grad():
                    F = fock(*args)
                return ref.from_seqm_P(tonp(F[0]))
            args[2] = torch.tensor(np.stack([embed(Pa), embed(Pb)])).unsqueeze(0)
            with torch.no_grad():
                F = fock_u_batch(*args)
            return ref.from_seqm_P(tonp(F[0, 0])), ref.from_seqm_P(tonp(F[0, 1]))

        try:
            if not case["uhf"]:
                P1, P2 = trial(), trial()
                F1, F2 = seqm_fock(P1), seqm_fock(P2)
                d = float(np.abs(F1 - ref.fock(P1)).max())
                if d > 2e-5:
                    return Outcome.fail(f"fock_restricted:{meth}", f"restricted Fock matrix of a trial density differs from the published contraction by {d:.3e} eV", labels, True, dF=d)
                a, b = case["a"], case["b"]
                F12 = seqm_fock(a * P1 + b * P2)
                H = ref.from_seqm_P(tonp(args[3]).reshape(len(Z), len(Z), 4, 4).transpose(0, 2, 1, 3).reshape(4 * len(Z), 4 * len(Z)))
                Hs = np.triu(H) + np.triu(H, 1).T
                lin = float(np.abs((F12 - Hs) - a * (F1 - Hs) - b * (F2 - Hs)).max())
                if lin > 1e-10 * max(1.0, float(np.abs(F12).max())):
                    return Outcome.fail("two_electron_operator_not_linear", f"G(aP1+bP2) - aG(P1) - bG(P2) = {lin:.3e}", labels, True)
                sym = float(np.abs(F1 - F1.T).max())
                if sym > 1e-12:
                    return Outcome.fail("fock_not_symmetric", f"|F - F^T| = {sym:.3e} for a symmetric density", labels, True)
                return Outcome.ok(True, labels, dFock=d, linearity=lin)
            Pa, Pb = trial(), trial()
            Fa, Fb = seqm_fock(Pa, Pb)
            Ra, Rb = ref.fock_u(Pa, Pb)
            d = float(max(np.abs(Fa - Ra).max(), np.abs(Fb - Rb).max()))
            if d > 2e-5:
                return Outcome.fail(f"fock_unrestricted:{meth}", f"unrestricted Fock matrices of trial spin densities differ from the published contraction by {d:.3e} eV", labels, True, dF=d)
            return Outcome.ok(True, labels, dFock_u=d)
        except Exception as e:
            return Outcome.fail(f"exception:{type(e).__name__}", f"{type(e).__name__}: {str(e)[:200]}", labels)


@st.composite
def _scf_case(draw):
    method = draw(st.sampled_from(["MNDO", "AM1", "PM3"]))
    kind = draw(st.sampled_from(["neutral", "neutral", "ion", "radical"]))
    mol = draw(S.molecule_case(method=method, kinds=(kind,), max_atoms=6, min_atoms=2, stretch=False))
    return {"mol": mol}


class SCFLevel(SubCheck):
    name = "scf_level"
    budget = {"quick": 400, "thorough": 10000}
    weight = 3.0

    def strategy(self, tier):
        return _scf_case()

    def oracle(self, case):
        from .. import refnddo as R

        Z, x = M.geometry(case["mol"])
        m = M.ALL[case["mol"]["tpl"]]
        meth = case["mol"]["method"]
        uhf = m["mult"] != 1
        labels = S.mol_labels(case["mol"], Z)
        try:
            r = run_sp([Z], [x], method=meth, eps=1e-10, charges=m["charge"], mult=m["mult"], uhf=uhf)
        except Exception as e:
            return Outcome.fail(f"exception:{type(e).__name__}", f"{type(e).__name__}: {str(e)[:200]}", labels)
        if notconv(r)[0]:
            return Outcome.inconclusive("scf_not_converged", labels)
        ref = R.Model(meth, list(Z), np.asarray(x))
        P = tonp(r.mol.dm[0])
        eref = ref.eelec(ref.from_seqm_P(P)) if not uhf else ref.eelec_u(ref.from_seqm_P(P[0]), ref.from_seqm_P(P[1]))
        checks = (("electronic_energy", abs(eref - float(r.mol.Eelec[0])), 5e-5), ("nuclear_energy", abs(ref.enuc() - float(r.mol.Enuc[0])), 1e-8 * max(1.0, abs(ref.enuc()))),
                  ("isolated_atom_energy", abs(ref.eiso() - float(r.mol.Eiso[0])), 1e-7), ("heat_of_formation", abs((eref + ref.enuc() - ref.eiso() + ref.eheat()) - float(r.mol.Hf[0])), 5e-5))
        info = {}
        for name, d, tol in checks:
            info["d_" + name] = d
            if d > tol:
                return Outcome.fail(f"{name}:{meth}", f"{meth} {case['mol']['tpl']}: {name} differs from the independent evaluation by {d:.3e} eV", labels, True, **{name: d})
        return Outcome.ok(True, labels, **info)


SUBCHECKS = [PairIntegrals(), Operators(), SCFLevel()]
