"""C16 -- CIS/RPA excited states are true eigenpairs of the response problem (DESIGN 3/C16).

Reference = dense singlet CIS matrix A (and RPA B) assembled by the harness from what the property names: the converged orbitals
and orbital energies and the model's two-electron integrals (molecule.w, the one-centre parameters), contracted with NumPy and
diagonalised densely. Returned energies must be the LOWEST requested eigenvalues, ascending, positive for a stable reference;
amplitudes orthonormal with residual below tolerance; RPA <= CIS; independent of amplitude reuse along nearby geometries and of
batch composition.
"""
import numpy as np
from hypothesis import strategies as st

from .. import molecules as M
from .. import strategies as S
from ..core import Outcome, SubCheck
from ..seqm_api import notconv, pad_batch, run_sp, tonp

PROPERTY = "C16"
LEVEL = "exploration"
RULE = ("Hypothesis draws closed-shell templates with <= 64 occupied x virtual pairs (symmetric ones with degenerate states included, "
        "undistorted or distorted by up to 0.1 A) x method x CIS / RPA x n_states 1..min(nov, 10) x tolerance 1e-5..1e-8 x layout {single, "
        "homogeneous batch (every member judged, and compared with the member alone), mixed batch} x {fresh, amplitudes reused from a "
        "neighbouring geometry} x {no window, orbital window (n below HOMO, m above LUMO)} x {subspace cap = nov, cap lowered to 10-24 "
        "vectors as under memory pressure so that the Davidson subspace is collapsed and restarted}. non-trivial = n_states >= 2 or a "
        "degenerate spectrum or reuse; distinct = case hash")
ASSUMPTIONS = ["dense reference built from molecule.w / parameters / e_mo / molecular_orbitals of the same call (the matrix the property defines)",
               "the code may return more roots than requested (it completes degenerate shells): all k >= n returned roots are compared with the k lowest reference eigenvalues",
               "energy bound 20 x tolerance + 1e-7"]

IDX = [(0, 0), (1, 0), (1, 1), (2, 0), (2, 1), (2, 2), (3, 0), (3, 1), (3, 2), (3, 3)]


def dense(mol, b=0, window=None):
    """dense A, B of molecule b of a (possibly heterogeneous) run -- real atoms only; window = (n occupied below the HOMO incl.,
    m virtual from the LUMO up) restricts the excitation space as excited_states['orbital_window'] does"""
    sp = tonp(mol.species[b])
    nat = int((sp > 0).sum())
    nao = 4 * nat
    G = np.zeros((nao,) * 4)
    p = mol.parameters
    w = tonp(mol.w)
    off = int((tonp(mol.species[:b]) > 0).sum())          # index of this molecule's first atom in the flat atom arrays
    for a in range(nat):
        gss, gsp, gpp, gp2, hsp = [float(p[k][off + a]) for k in ["g_ss", "g_sp", "g_pp", "g_p2", "h_sp"]]
        o = 4 * a
        G[o, o, o, o] = gss
        for i in range(1, 4):
            G[o, o, o + i, o + i] = G[o + i, o + i, o, o] = gsp
            for (x, y, z, t) in [(o, o + i, o, o + i), (o, o + i, o + i, o), (o + i, o, o, o + i), (o + i, o, o + i, o)]:
                G[x, y, z, t] = hsp
            G[o + i, o + i, o + i, o + i] = gpp
            for j in range(1, 4):
                if i != j:
                    G[o + i, o + i, o + j, o + j] = gp2
                    for (x, y, z, t) in [(o + i, o + j, o + i, o + j), (o + i, o + j, o + j, o + i)]:
                        G[x, y, z, t] = 0.5 * (gpp - gp2)
    idxi, idxj, pm = tonp(mol.idxi), tonp(mol.idxj), tonp(mol.pair_molid)
    for k in range(len(idxi)):
        if pm[k] != b:
            continue
        i, j = int(idxi[k]) - off, int(idxj[k]) - off
        for m_, (a_, b_) in enumerate(IDX):
            for n_, (c_, d_) in enumerate(IDX):
                v = w[k, m_, n_]
                if v == 0:
                    continue
                for (x, y) in {(a_, b_), (b_, a_)}:
                    for (z, t) in {(c_, d_), (d_, c_)}:
                        G[4 * i + x, 4 * i + y, 4 * j + z, 4 * j + t] = v
                        G[4 * j + z, 4 * j + t, 4 * i + x, 4 * i + y] = v
    nH = int(mol.nHeavy[b])
    keep = list(range(4 * nH)) + [4 * nH + 4 * k for k in range(int(mol.nHydro[b]))]
    Gp = G[np.ix_(keep, keep, keep, keep)]
    norb, nocc = int(mol.norb[b]), int(mol.nocc[b])
    C = tonp(mol.molecular_orbitals[b])[:norb, :norb]
    e = tonp(mol.e_mo[b])[:norb]
    Co, Cv = C[:, :nocc], C[:, nocc:norb]
    eo, evv = e[:nocc], e[nocc:norb]
    if window is not None:
        Co, Cv = Co[:, nocc - window[0]:], Cv[:, : window[1]]
        eo, evv = eo[nocc - window[0]:], evv[: window[1]]
    ovov = np.einsum("mi,na,lj,sb,mnls->iajb", Co, Cv, Co, Cv, Gp, optimize=True)
    oovv = np.einsum("mi,nj,la,sb,mnls->ijab", Co, Co, Cv, Cv, Gp, optimize=True)
    nov = Co.shape[1] * Cv.shape[1]
    A = (2 * ovov - oovv.transpose(0, 2, 1, 3)).reshape(nov, nov) + np.diag((evv[None, :] - eo[:, None]).reshape(-1))
    B = (2 * ovov - ovov.transpose(0, 3, 2, 1)).reshape(nov, nov)
    return A, B, nov


def _set_cap(cap):
    """emulates little free memory: getMaxSubspacesize (imported by name into three modules) returns min(nov, cap)"""
    if not cap:
        return lambda: None
    import seqm.seqm_functions.rcis_batch as RB
    import seqm.seqm_functions.rcis_new as RN
    import seqm.seqm_functions.rpa as RP

    saved = [(m, m.getMaxSubspacesize) for m in (RB, RN, RP)]

    def capped(dtype, device, nov, nmol=1, num_big_matrices=2):
        return min(nov, cap)

    for m, _ in saved:
        m.getMaxSubspacesize = capped

    def restore():
        for m, f in saved:
            m.getMaxSubspacesize = f
    return restore


@st.composite
def _case(draw):
    method = draw(st.sampled_from(M.METHODS_SP))
    pool = [t for t in M.names(method, ("neutral",), 8, 2) if 2 <= M.n_ov(t) <= 64]
    tpl = draw(st.sampled_from(pool))
    n = len(M.ALL[tpl]["Z"])
    amp = draw(st.sampled_from([0.0, 0.0, 0.03, 0.1]))
    mol = {"method": method, "tpl": tpl, "amp": amp}
    if amp:
        mol["disp"] = draw(st.lists(S.q3, min_size=3 * n, max_size=3 * n))
    nov = M.n_ov(tpl)
    case = {"mol": mol, "exm": draw(st.sampled_from(["cis", "cis", "rpa"])), "n": draw(st.integers(1, max(1, min(nov - 1, 10)))),
            "tol": 10.0 ** (-draw(st.integers(5, 8))), "layout": draw(st.sampled_from(["single", "single", "homog", "mixed"])),
            "reuse": draw(st.integers(0, 2)) == 0, "wseed": draw(st.integers(0, 10 ** 5))}
    nocc = M.n_electrons(tpl) // 2
    nvirt = M.n_orbitals(tpl) - nocc
    if case["layout"] != "mixed" and not case["reuse"] and draw(st.integers(0, 3)) == 0:
        # orbital window (n below the HOMO, m above the LUMO); needs uniform nocc/norb, i.e. single or homogeneous layout
        wb, wa = draw(st.integers(1, nocc)), draw(st.integers(1, nvirt))
        if wb * wa >= 2:
            case["window"] = [wb, wa]
            case["n"] = max(1, min(case["n"], wb * wa - 1))
    if case["exm"] == "cis" and case["layout"] != "mixed" and "window" not in case and draw(st.integers(0, 3)) == 0:
        # memory pressure: the Davidson subspace cap (normally derived from free memory and equal to nov for small molecules) is
        # lowered so that the subspace has to be collapsed and restarted ("subspace history")
        case["cap"] = max(3 * case["n"] + 4, draw(st.sampled_from([10, 12, 16, 24])))
    if case["layout"] == "mixed":
        case["reuse"] = False       # amplitude reuse in a heterogeneous batch raises NotImplementedError (explicitly unsupported)
        pool2 = [t for t in pool if M.ALL[t]["Z"] != M.ALL[tpl]["Z"] and M.n_ov(t) >= case["n"] + 1]
        if case["exm"] == "rpa" or not pool2:
            case["layout"] = "single"
        else:
            case["mate"] = {"method": method, "tpl": draw(st.sampled_from(pool2)), "amp": 0.0}
    return case


class Eigenpairs(SubCheck):
    name = "eigenpairs"
    budget = {"quick": 900, "thorough": 25000}
    weight = 3.0

    def strategy(self, tier):
        return _case()

    def oracle(self, case):
        Z, x = M.geometry(case["mol"])
        method, exm, n, tol = case["mol"]["method"], case["exm"], case["n"], case["tol"]
        labels = ["method:" + method, "exm:" + exm, "layout:" + case["layout"], "reuse:%s" % case["reuse"], "n:%d" % n, "tol:1e%d" % round(np.log10(tol)),
                  "symmetric" if case["mol"]["amp"] == 0 else "distorted"]
        rows = [(list(Z), x)]
        if case["layout"] == "homog":
            rng = np.random.default_rng(case["wseed"])
            rows.append((list(Z), x + rng.normal(size=x.shape) * 0.03))
        elif case["layout"] == "mixed":
            z2, x2 = M.geometry(case["mate"])
            rows.insert(0, (list(z2), x2)) if case["wseed"] % 2 else rows.append((list(z2), x2))
        b = 1 if (case["layout"] == "mixed" and case["wseed"] % 2) else 0
        Sx, X = pad_batch(rows)
        ex = {"excited_states": {"method": exm, "n_states": n, "tolerance": tol}}
        window = case.get("window")
        if window:
            ex["excited_states"]["orbital_window"] = tuple(window)
            labels.append("window")
        restore = _set_cap(case.get("cap"))
        if case.get("cap"):
            labels.append("subspace_cap")
        try:
            return self._judge(case, rows, b, Sx, X, ex, labels, window)
        finally:
            restore()

    def _judge(self, case, rows, b, Sx, X, ex, labels, window):
        method, exm, n, tol = case["mol"]["method"], case["exm"], case["n"], case["tol"]
        try:
            if case["reuse"]:
                # amplitudes (and density, orbitals) of a neighbouring geometry are carried over exactly the way an MD step carries
                # them: ONE molecule object, coordinates updated in place, second call with P0 = molecule.dm and
                # cis_amp = molecule.cis_amplitudes. (A first version passed the amplitudes to a NEW molecule object, which the
                # reuse path does not support -- it needs the previous orbitals stored on the molecule; harness misuse, not a defect.)
                from ..seqm_api import silence, torch

                rng = np.random.default_rng(case["wseed"] + 1)
                Xn = X + (rng.normal(size=X.shape) * 0.02) * (Sx > 0)[..., None]
                r = run_sp(Sx, Xn, method=method, eps=1e-10, extra={k: dict(v) for k, v in ex.items()})
                with silence():
                    with torch.no_grad():
                        r.mol.coordinates.copy_(torch.tensor(X))
                    r.es(r.mol, P0=r.mol.dm, cis_amp=r.mol.cis_amplitudes)
            else:
                r = run_sp(Sx, X, method=method, eps=1e-10, extra={k: dict(v) for k, v in ex.items()})
        except Exception as e:
            msg = str(e)
            if "A-B matrix has negative eigenvalues" in msg:
                return Outcome.inconclusive("rpa_unstable_reference", labels)
            if "invalid for input of size" in msg and len(rows) > 1:
                return Outcome.inconclusive("recorded_c05_padded_homogeneous_crash", labels)
            if case.get("cap") and ("Maximum iterations reached" in msg or "Insufficient memory" in msg):
                # with the artificially small subspace cap the solver may stagnate; it says so loudly -- an honest failure signal
                return Outcome.inconclusive("capped_subspace_did_not_converge", labels)
            if exm == "rpa" and case["reuse"] and "expand(" in msg:
                # recorded finding: rpa() assigns the stored [2, nmol, nroots, nov] (X, Y) amplitudes directly to its [nmol, n, nov]
                # trial-vector array; every second RPA call on a molecule -- i.e. every excited-state MD run with RPA -- dies
                return Outcome.fail("rpa_amplitude_reuse_crashes", f"{type(e).__name__}: {msg[:160]}", labels, True)
            return Outcome.fail(f"exception:{type(e).__name__}", f"{type(e).__name__}: {msg[:200]}", labels)
        if notconv(r).any():
            return Outcome.inconclusive("scf_not_converged", labels)
        if case["layout"] == "homog":
            # every member of a homogeneous batch is judged (a first version looked at member 0 only and missed a seeded change that
            # corrupts the LATER members when an earlier one converges first); member 1 sits at a generic geometry
            first = None
            for bb in range(len(rows)):
                out = self._judge_member(case, r, bb, labels + ["member:%d" % bb], window, symmetric=(bb == 0 and case["mol"]["amp"] == 0))
                if out["status"] == "fail":
                    return out
                first = first or out
            if not case["reuse"]:
                # batch composition: each member alone must give the member's energies in the batch
                for bb in range(len(rows)):
                    try:
                        ra = run_sp(Sx[bb:bb + 1], X[bb:bb + 1], method=method, eps=1e-10, extra={k_: dict(v) for k_, v in ex.items()})
                    except Exception:
                        continue
                    ga, gb = tonp(ra.mol.cis_energies[0]), tonp(r.mol.cis_energies[bb])
                    kk = min(len(ga), len(gb), n)
                    d = float(np.abs(ga[:kk] - gb[:kk]).max())
                    if d > 20 * tol + 1e-7:
                        return Outcome.fail("batch_member_energies_differ_from_alone", f"{exm} n_states={n}, member {bb} of a homogeneous batch of {len(rows)} ({case['mol']['tpl']}): in the batch {gb[:kk].round(5).tolist()}, alone {ga[:kk].round(5).tolist()}",
                                            labels, True, dev_alone=d)
            return first
        return self._judge_member(case, r, b, labels, window, symmetric=(case["mol"]["amp"] == 0))

    def _judge_member(self, case, r, b, labels, window, symmetric):
        labels = list(labels)
        exm, n, tol = case["exm"], case["n"], case["tol"]
        rows = [None] * int(r.mol.species.shape[0])
        A, B, nov = dense(r.mol, b, window)
        if case.get("cap"):
            labels.append("restart_needed:%s" % (case["cap"] < nov))
        evA = np.linalg.eigvalsh(A)
        if exm == "cis":
            ev = evA
        else:
            m2 = np.sort(np.linalg.eigvals((A - B) @ (A + B)).real)
            if m2[0] <= 0:
                return Outcome.inconclusive("rpa_unstable_reference", labels)
            ev = np.sqrt(m2)
        got = tonp(r.mol.cis_energies[b])
        got = got[: max(n, int((np.abs(got) > 0).sum()))] if len(got) > n else got
        k = len(got)
        degenerate = bool((np.diff(ev[: min(k + 1, len(ev))]) < 1e-6).any())
        nontrivial = n >= 2 or degenerate or case["reuse"]
        labels.append("degenerate" if degenerate else "nondegenerate")
        bound = 20 * tol + 1e-7
        if np.any(np.diff(got) < -1e-10):
            return Outcome.fail("roots_not_ascending", f"returned energies {got.round(6).tolist()}", labels, nontrivial)
        if exm == "rpa" and window and k > len(ev):
            # recorded finding rpa_ignores_orbital_window seen from another side: the full-space solver returns more roots than the
            # windowed space has (thorough run, seed 1: PM3 PF3, window (2,3), 7 roots for a 6-dimensional space)
            Af, Bf, _ = dense(r.mol, b, None)
            full = np.sqrt(np.clip(np.sort(np.linalg.eigvals((Af - Bf) @ (Af + Bf)).real), 0, None))
            if all(np.abs(full - g).min() <= 20 * tol + 1e-7 for g in got):
                return Outcome.fail("rpa_ignores_orbital_window", f"RPA with orbital_window={tuple(window)} returns {k} full-space roots {got.round(5).tolist()}; the windowed space has {len(ev)}", labels, n >= 2)
        if k > len(ev):
            return Outcome.fail("more_roots_than_the_excitation_space_has", f"{k} energies returned, the (windowed) excitation space has {len(ev)}: {got.round(5).tolist()}", labels, nontrivial)
        dmax = float(np.abs(got - ev[:k]).max())
        if dmax > bound and case["layout"] == "mixed" and exm == "cis" and evA[0] <= 1e-6:
            # recorded finding (root cause read in rcis_new.get_subspace_eig_any_batched, also recorded for C05): in a heterogeneous
            # batch a true excitation energy <= 0 (CIS-unstable reference) is discarded with the padding zeros of the subspace matrix
            # and 0.0 is returned in its place
            npos = int((evA <= 1e-6).sum())
            # (thorough run, seed 1: with n_states = 1 the single returned value IS the padding zero -- k == npos; the first version of this
            # predicate demanded at least one further root and let the case fall through to the generic bucket)
            rest_ok = k >= npos and float(np.abs(got[:npos]).max()) <= 1e-12 and (k == npos or float(np.abs(got[npos:k] - ev[npos:k]).max()) <= bound)
            if rest_ok:
                return Outcome.fail("hetero_cis_nonpositive_root_replaced_by_padding_zero", f"returned {got.round(5).tolist()} vs dense {ev[:k].round(5).tolist()}", labels, nontrivial)
        if dmax > bound and exm == "rpa" and window:
            Af, Bf, _ = dense(r.mol, b, None)
            full = np.sqrt(np.clip(np.sort(np.linalg.eigvals((Af - Bf) @ (Af + Bf)).real), 0, None))
            if all(np.abs(full - g).min() <= bound for g in got) and not all(np.abs(ev - g).min() <= bound for g in got):
                return Outcome.fail("rpa_ignores_orbital_window", f"RPA with orbital_window={tuple(window)} returns {got.round(5).tolist()}, the eigenvalues of the FULL space ({full[:k].round(5).tolist()}); the windowed "
                                    f"problem has {ev[:k].round(5).tolist()}", labels, nontrivial)
        if dmax > bound:
            each_is_eigenvalue = all(np.abs(ev - g).min() <= bound for g in got)
            if each_is_eigenvalue:
                # recorded finding: every returned value is a true eigenvalue but lower ones were skipped
                missed = [float(v) for v in ev[: k + 4] if np.abs(got - v).min() > bound and v < got.max()]
                if evA[0] <= 1e-6 and len(rows) > 1 and case["layout"] == "mixed":
                    return Outcome.inconclusive("recorded_c05_hetero_nonpositive_root", labels)
                # recorded finding: roots ABOVE the lowest one are skipped when their irrep (or, at nearly symmetric geometries, their
                # weakly coupled block) is absent from the initial guess; observed on the unchanged tree for single molecules at
                # symmetric, linear and slightly distorted geometries alike (PCl3, NaH, P2, BeF2). The lowest root has always been found;
                # a skipped LOWEST root is therefore outside the recorded finding.
                # At exactly symmetric or linear geometries even the lowest root can be skipped (AlCl3 D3h, LiF): the finding's original
                # witnesses. Outside the finding, and reported: the lowest root skipped at a generic non-linear geometry.
                exact_sym = symmetric or M.is_linear(case["mol"]["tpl"])
                bucket = "davidson_skips_roots" if (exact_sym or abs(got[0] - ev[0]) <= bound) else "lowest_root_skipped_at_generic_geometry"
                return Outcome.fail(bucket, f"{exm} n_states={n} ({case['mol']['tpl']}, {'symmetric' if symmetric else 'generic'} geometry, member {b}): returned {got.round(5).tolist()}; "
                                    f"true eigenvalues below the largest returned one that are missing: {np.round(missed, 5).tolist()}", labels, nontrivial, skipped=len(missed))
            return Outcome.fail(f"returned_value_is_not_an_eigenvalue:{exm}", f"returned {got.round(6).tolist()} vs dense {ev[:k].round(6).tolist()} (max deviation {dmax:.3e} > {bound:.1e})", labels, nontrivial, dev=dmax)
        if ev[0] > 1e-6 and got.min() <= 0:
            return Outcome.fail("nonpositive_energy_for_stable_reference", f"lowest returned {got.min()!r}, dense lowest {ev[0]!r}", labels, nontrivial)
        info = {"dev": dmax}
        if exm == "cis" and case["layout"] != "mixed" and not window:
            # (heterogeneous batches store amplitudes in a batch-padded layout that this harness does not decode; their energies
            # are compared above. A first version guessed the layout and reported non-orthonormal amplitudes -- harness error.)
            amps = tonp(r.mol.cis_amplitudes[b])[:k]
            nocc, norb = int(r.mol.nocc[b]), int(r.mol.norb[b])
            Xa = amps.reshape(k, -1)
            if Xa.shape[1] != nov:
                # amplitudes are stored in the padded (nocc x nvirt of the batch) layout: keep this molecule's block
                full_nv = Xa.shape[1] // max(nocc, 1)
                Xa = Xa.reshape(k, nocc, full_nv)[:, :, : norb - nocc].reshape(k, nov) if full_nv >= norb - nocc and Xa.shape[1] == nocc * full_nv else None
            if Xa is not None:
                orth = float(np.abs(Xa @ Xa.T - np.eye(k)).max())
                resid = float(np.abs(Xa @ A - got[:, None] * Xa).max())
                info.update(orth=orth, resid=resid)
                if orth > 1e-6:
                    return Outcome.fail("amplitudes_not_orthonormal", f"|X X^T - 1| = {orth:.3e}", labels, nontrivial)
                if resid > 50 * tol + 1e-7:
                    return Outcome.fail("residual_above_tolerance", f"|A x - w x| = {resid:.3e} at tolerance {tol:.0e}", labels, nontrivial, resid=resid)
        else:
            viol = float((got - evA[:k]).max())
            if viol > 1e-8 + bound:
                return Outcome.fail("rpa_above_cis", f"RPA energy exceeds the CIS energy of the same root by {viol:.3e}", labels, nontrivial)
        return Outcome.ok(nontrivial, labels, **info)


SUBCHECKS = [Eigenpairs()]
