"""C14 -- reported observables are mutually consistent (DESIGN 3/C14).

Identities checked on the attributes of ONE call (plus one translated partner run for the dipole law):
  Etot = Eelec + Enuc (+ excitation energy of the active state)
  Hf   = Etot - sum Eiso_A + sum eheat_A        with Eiso/eheat from the INDEPENDENT reference (pv/refnddo.py: atomic
         energies from the valence configurations and the shipped table, heats from the literature table)
  gap  = e[LUMO] - e[HOMO] of the reported orbital energies (per spin for UHF); e ascending on the real orbitals
  e    = eigenvalues of the Fock operator of the reported density -- Fock built by the independent reference
         (MNDO/AM1/PM3, <= 20 orbitals, RHF)
  q_A  = Z'_A - sum_{mu in A} P_mumu ; sum q = molecular charge
  dipole = charge term + sp-hybridisation term evaluated by the harness from q, P, coordinates and the Slater exponents;
         translation by t changes it by kappa*Q*t (zero for neutrals)
"""
import math

import numpy as np
from hypothesis import strategies as st

from .. import molecules as M
from .. import strategies as S
from ..core import Outcome, SubCheck
from ..seqm_api import notconv, pad_batch, run_sp, tonp

PROPERTY = "C14"
LEVEL = "exploration"
RULE = ("Hypothesis draws template (neutral / ion / UHF radical) + displacement x method {MNDO,AM1,PM3,PM6_SP} x solver x "
        "layout (single / zero-padded batch) x active state (S0 or CIS/RPA S_k); every identity of the property statement "
        "is evaluated on the returned attributes. non-trivial = SCF converged; distinct = distinct case hash")
ASSUMPTIONS = ["algebraic identities on returned numbers: bound 1e-9 eV (pilot maxima 1e-13)",
               "eigenvalue identity uses the independent reference Fock operator (accuracy 5e-6 eV) and only MNDO/AM1/PM3, RHF, <= 20 orbitals",
               "dipole compared with 1e-4 relative + 2e-5 absolute tolerance (the code's unit constants differ from 1/a0 by 4.8e-5)",
               "PM6 (d orbitals) is outside: its dipole is not implemented in the code"]

A0 = 0.529167
QN = {1: 1, 3: 2, 4: 2, 5: 2, 6: 2, 7: 2, 8: 2, 9: 2, 11: 3, 12: 3, 13: 3, 14: 3, 15: 3, 16: 3, 17: 3}


@st.composite
def _case(draw):
    method = draw(st.sampled_from(M.METHODS_SP))
    kind = draw(st.sampled_from(["neutral", "neutral", "ion", "radical"]))
    mol = draw(S.molecule_case(method=method, kinds=(kind,), max_atoms=7, min_atoms=1))
    if kind == "radical" and mol.get("stretch") and mol["stretch"][2] > 1.1:
        mol["stretch"][2] = 1.1
    case = {"mol": mol, "solver": draw(S.solver(allow_sp2=False, eps_exp=(8, 10)))}
    if kind == "radical" and case["solver"]["conv"][0] == 2:
        case["solver"]["conv"] = [1]
    if kind != "radical" and draw(st.integers(0, 3)) == 0:
        k2 = draw(st.sampled_from(["neutral", "ion"]))
        case["mates"] = [draw(S.molecule_case(method=method, kinds=(k2,), max_atoms=7, stretch=False))]
        case["padw"] = draw(st.integers(0, 2))
        case["row"] = draw(st.integers(0, 1))
    if kind == "neutral" and "mates" not in case and M.n_ov(mol["tpl"]) >= 4 and draw(st.integers(0, 3)) == 0:
        k = draw(st.integers(1, 2))
        case["exc"] = {"method": draw(st.sampled_from(["cis", "rpa"])), "state": k, "n_states": min(k + 1, M.n_ov(mol["tpl"]) // 2)}
        case["exc"]["state"] = min(case["exc"]["state"], case["exc"]["n_states"])
    case["t"] = [draw(S.q3) * 5 for _ in range(3)]
    if "mates" in case and not case.get("exc") and draw(st.booleans()):
        case["reuse_driver"] = True
    return case


def _ref_dipole(Z, X, Psum, zs, zp):
    mu = np.zeros(3)
    off = 0
    for a, z in enumerate(Z):
        blk = Psum[4 * a:4 * a + 4, 4 * a:4 * a + 4]
        q = M.VALENCE[z] - np.trace(blk)
        mu += q * X[a]
        if z > 1:
            n = QN[z]
            D1 = (2 * n + 1) * (4 * zs[a] * zp[a]) ** (n + 0.5) / (zs[a] + zp[a]) ** (2 * n + 2) / math.sqrt(3.0) * A0
            mu -= 2 * D1 * blk[0, 1:4]
    return mu / A0


def _rows(case):
    rows = []
    mols = [case["mol"]] + list(case.get("mates", []))
    if case.get("row", 0) == 1:
        mols = mols[::-1]
    for mc in mols:
        Z, x = M.geometry(mc)
        m = M.ALL[mc["tpl"]]
        rows.append((Z, x, m["charge"], m["mult"]))
    return rows, (case.get("row", 0) if "mates" in case else 0)


def _run(case, rows, shift=None, reuse=False):
    sol = case["solver"]
    uhf = any(r[3] != 1 for r in rows)
    ex = {}
    if case.get("exc"):
        e = case["exc"]
        ex = {"excited_states": {"method": e["method"], "n_states": e["n_states"], "tolerance": 1e-8}, "active_state": e["state"]}
    geo = [(r[0], r[1] + (shift if shift is not None else 0.0)) for r in rows]
    width = max(len(r[0]) for r in rows) + case.get("padw", 0)
    Sx, X = pad_batch(geo, width=width)
    if not reuse:
        return run_sp(Sx, X, method=case["mol"]["method"], eps=sol["eps"], conv=sol["conv"], sp2=sol["sp2"],
                      charges=np.array([r[2] for r in rows]), mult=np.array([r[3] for r in rows]), uhf=uhf, extra=ex), uhf
    # "for every calculation": also for one that reuses a driver object (and its settings dictionary) which has just been
    # used for ANOTHER batch of the same tensor shape and the same element set -- here the same rows in reversed order.
    from types import SimpleNamespace

    from ..seqm_api import Constants, Electronic_Structure, Molecule, settings, silence, torch

    sp = settings(case["mol"]["method"], sol["eps"], sol["conv"], sol["sp2"], uhf, ex)
    dgeo = geo[::-1]
    Sd, Xd = pad_batch(dgeo, width=width)
    ch = np.array([r[2] for r in rows])
    mu = np.array([r[3] for r in rows])
    with silence() as buf:
        decoy = Molecule(Constants(), sp, torch.tensor(Xd), torch.tensor(Sd), charges=torch.tensor(ch[::-1].copy()), mult=torch.tensor(mu[::-1].copy()))
        es = Electronic_Structure(sp)
        es(decoy)
        mol = Molecule(Constants(), sp, torch.tensor(X), torch.tensor(Sx), charges=torch.tensor(ch), mult=torch.tensor(mu))
        es(mol)
    return SimpleNamespace(mol=mol, es=es, sp=sp, out=buf.getvalue(), S=Sx, X=X), uhf


class Identities(SubCheck):
    name = "identities"
    budget = {"quick": 1600, "thorough": 40000}
    weight = 2.0

    def strategy(self, tier):
        return _case()

    def oracle(self, case):
        from .. import refnddo as R

        rows, b = _rows(case)
        Z, x, Q, mult = rows[b]
        n = len(Z)
        method = case["mol"]["method"]
        labels = S.mol_labels(case["mol"], Z) + S.solver_labels(case["solver"]) + ["layout:" + ("batch" if "mates" in case else "single")]
        labels.append("state:" + (case["exc"]["method"] + str(case["exc"]["state"]) if case.get("exc") else "S0"))
        if case.get("reuse_driver"):
            labels.append("reused_driver_after_other_batch")
        try:
            r, uhf = _run(case, rows, reuse=bool(case.get("reuse_driver")))
        except Exception as e:
            if "A-B matrix has negative eigenvalues" in str(e):
                # RPA on a reference that is unstable in this SCF state (PM3 AlCl with Pulay: alarm of a background sweep at seed 4): the
                # code refuses loudly, which is an honest failure signal, not an inconsistent observable (C16 treats it the same way)
                return Outcome.inconclusive("rpa_unstable_reference", labels)
            return Outcome.fail(f"exception:{type(e).__name__}", f"{type(e).__name__}: {e}", labels)
        if notconv(r).any():
            return Outcome.inconclusive("scf_not_converged", labels)
        m = r.mol
        info = {}
        tol = 1e-9
        Etot, Eelec, Enuc, Hf = (float(t[b]) for t in (m.Etot, m.Eelec, m.Enuc, m.Hf))
        # 1. energy partition
        exc = 0.0
        if case.get("exc"):
            exc = float(m.cis_energies[b, case["exc"]["state"] - 1])
        d = abs(Etot - (Eelec + Enuc + exc))
        info["Etot_split"] = d
        if d > tol + (1e-6 if case.get("exc") else 0.0):
            return Outcome.fail("etot_partition" + (":excited" if case.get("exc") else ""), f"Etot - (Eelec+Enuc+E_exc) = {Etot - (Eelec + Enuc + exc):.3e}", labels, True)
        # 2. heat of formation with independent atomic energies and heats
        ref = R.Model(method, list(Z), np.asarray(x))
        hf_ref = Etot - ref.eiso() + ref.eheat()
        d = abs(Hf - hf_ref)
        info["Hf_identity"] = d
        if d > 1e-7:
            return Outcome.fail(f"hf_identity:{method}", f"Hf = {Hf!r}, Etot - sum Eiso + sum eheat (independent tables) = {hf_ref!r}", labels, True)
        d = abs(float(m.Eiso[b]) - ref.eiso())
        if d > 1e-7:
            return Outcome.fail(f"eiso:{method}", f"sum of isolated-atom energies {float(m.Eiso[b])!r} vs reference {ref.eiso()!r}", labels, True)
        # 3. orbital energies ascending on the real orbitals, gap = LUMO - HOMO
        norb = sum(1 if z == 1 else 4 for z in Z)
        nel = sum(M.VALENCE[z] for z in Z) - Q
        e = tonp(m.e_mo[b])
        spins = [e] if not uhf else [e[0], e[1]]
        noccs = [nel // 2] if not uhf else [(nel + mult - 1) // 2, (nel - mult + 1) // 2]
        gaps = tonp(m.e_gap[b]) if m.e_gap is not None and m.e_gap.numel() else None
        for s, (es, no) in enumerate(zip(spins, noccs)):
            er = es[:norb]
            if np.any(np.diff(er) < -1e-10):
                return Outcome.fail("orbital_energies_not_ascending", f"spin {s}: e_mo not ascending: {er.tolist()}", labels, True)
            if gaps is not None and 0 < no < norb:
                g = float(np.atleast_1d(gaps)[s]) if uhf else float(gaps)
                d = abs(g - (er[no] - er[no - 1]))
                info["gap_identity"] = max(info.get("gap_identity", 0.0), d)
                if d > tol:
                    return Outcome.fail("gap_identity" + (":uhf" if uhf else ""), f"spin {s}: gap {g!r} vs e[LUMO]-e[HOMO] {er[no] - er[no - 1]!r}", labels, True)
        # 4. charges from the density, sum = molecular charge
        P = tonp(m.dm[b])
        Psum = P if not uhf else P[0] + P[1]
        q = tonp(m.q[b])[:n]
        qref = np.array([M.VALENCE[z] - np.trace(Psum[4 * a:4 * a + 4, 4 * a:4 * a + 4]) for a, z in enumerate(Z)])
        d = float(np.abs(q - qref).max())
        info["q_from_P"] = d
        if d > tol:
            return Outcome.fail("charges_from_density", f"q differs from Z' - tr_A P by {d:.3e}", labels, True)
        d = abs(q.sum() - Q)
        info["sum_q"] = d
        if d > 1e-8:
            return Outcome.fail("charge_sum", f"sum q = {q.sum()!r}, molecular charge {Q}", labels, True)
        qpad = tonp(m.q[b])[n:]
        if qpad.size and np.any(qpad != 0.0):
            return Outcome.fail("charge_on_padding", f"padding atoms carry charge {qpad.tolist()}", labels, True)
        # 5. orbital energies are the eigenvalues of the Fock operator of the reported density (independent Fock)
        if method != "PM6_SP" and not uhf and norb <= 20:
            Pr = ref.from_seqm_P(P)
            ev = np.linalg.eigvalsh(ref.fock(Pr))
            d = float(np.abs(ev - e[:norb]).max())
            info["e_vs_eig_F"] = d
            if d > 2e-5 + 1e4 * case["solver"]["eps"]:
                return Outcome.fail(f"emo_not_eigenvalues_of_fock:{method}", f"max |e_mo - eig F_ref(P)| = {d:.3e}", labels, True)
            d = abs(ref.eelec(Pr) - Eelec)
            info["Eelec_functional"] = d
            if d > 5e-5:
                return Outcome.fail(f"eelec_not_functional_of_density:{method}", f"Eelec {Eelec!r} vs 1/2 tr P(H+F) of the reference {ref.eelec(Pr)!r}", labels, True)
        # 6. dipole implied by charges and density; translation law
        if m.dipole is not None:
            off = sum(len(rw[0]) for rw in rows[:b])
            zs = tonp(m.parameters["zeta_s"])[off:off + n]
            zp = tonp(m.parameters["zeta_p"])[off:off + n]
            mu = tonp(m.dipole[b])
            mref = _ref_dipole(Z, np.asarray(x), Psum, zs, zp)
            d = float(np.abs(mu - mref).max())
            info["dipole_vs_ref_rel"] = d / max(1.0, float(np.abs(mref).max()))
            if d > 1e-4 * max(1.0, float(np.abs(mref).max())) + 2e-5:
                return Outcome.fail("dipole_not_implied_by_charges_and_density", f"dipole {mu.tolist()} vs charges+hybridisation {mref.tolist()}", labels, True)
            t = np.array(case["t"])
            if np.abs(t).max() > 0.1 and not case.get("exc"):
                r2, _ = _run(case, rows, shift=t)
                if not notconv(r2).any() and abs(float(r2.mol.Etot[b]) - Etot) > 1e-6:
                    # the translated run landed on ANOTHER SCF state (found by a background sweep: PM3 BeH2 with Pulay, -46.04 eV
                    # instead of -57.22 eV after a pure translation): a solver-path matter recorded under C04, not a dipole law
                    return Outcome.inconclusive("translated_run_other_scf_state", labels)
                if not notconv(r2).any():
                    sh = tonp(r2.mol.dipole[b]) - mu
                    want = Q * t / A0
                    d = float(np.abs(sh - want).max())
                    info["dipole_translation"] = d / max(1.0, float(np.abs(want).max()))
                    if d > 1e-4 * max(1.0, float(np.abs(want).max())) + 2e-6:
                        return Outcome.fail("dipole_translation_law" + (":ion" if Q else ":neutral"), f"translation by {t.tolist()} changes the dipole by {sh.tolist()}, expected Q*t = {want.tolist()}", labels, True)
        return Outcome.ok(True, labels, **info)

    def simplify(self, case):
        if case.get("mates"):
            c = {k: v for k, v in case.items() if k not in ("mates", "padw", "row")}
            yield c
        if case.get("exc"):
            yield {k: v for k, v in case.items() if k != "exc"}
        if case["mol"].get("amp", 0):
            mm = dict(case["mol"], amp=0.0)
            mm.pop("disp", None)
            yield dict(case, mol=mm)
        if case["mol"].get("stretch"):
            mm = dict(case["mol"])
            mm.pop("stretch")
            yield dict(case, mol=mm)


@st.composite
def _mixed_case(draw):
    method = draw(st.sampled_from(M.METHODS_SP))
    pool = [t for t in M.names(method, ("neutral",), 5, 3) if M.n_ov(t) >= 6 and not M.is_linear(t)]
    tpl = draw(st.sampled_from(pool))
    n = len(M.ALL[tpl]["Z"])
    nrow = draw(st.integers(2, 3))
    states = [draw(st.integers(0, 2)) for _ in range(nrow)]
    if all(s_ == states[0] for s_ in states):
        states[0] = 0 if states[0] else 1
    return {"method": method, "tpl": tpl, "states": states, "backward": draw(st.sampled_from([1, 2])),
            "disp": [draw(st.lists(S.q3, min_size=3 * n, max_size=3 * n)) for _ in range(nrow)]}


class MixedStates(SubCheck):
    """per-molecule active states that mix ground (0) and excited (k) members of one homogeneous batch: every member's
    Etot must be Eelec + Enuc plus ITS OWN active-state excitation energy (nothing for a ground-state member), and equal
    the energy of the same molecule computed alone on that state."""
    name = "mixed_states"
    budget = {"quick": 200, "thorough": 5000}
    weight = 4.0

    def strategy(self, tier):
        return _mixed_case()

    def _call(self, case, members):
        from ..seqm_api import Constants, Electronic_Structure, Molecule, settings, silence, torch

        geos = [M.geometry({"tpl": case["tpl"], "amp": 0.06, "disp": case["disp"][b]}) for b in members]
        sp = settings(case["method"], 1e-9, (1,), (False,), False,
                      {"excited_states": {"method": "cis", "n_states": 3, "tolerance": 1e-8}, "scf_backward": case["backward"], "active_state": 0})
        Sx = np.array([g[0] for g in geos])
        X = np.array([g[1] for g in geos])
        with silence():
            mol = Molecule(Constants(), sp, torch.tensor(X), torch.tensor(Sx))
            mol.active_state = torch.tensor([case["states"][b] for b in members])
            es = Electronic_Structure(sp)
            es(mol)
        return mol, es

    def oracle(self, case):
        labels = ["method:" + case["method"], "states:" + ",".join(map(str, case["states"])), "backward:%d" % case["backward"]]
        nrow = len(case["states"])
        try:
            mol, es = self._call(case, list(range(nrow)))
        except Exception as e:
            return Outcome.inconclusive(f"mixed_states_not_supported:{type(e).__name__}", labels)
        if bool(torch_any(es.notconverged)):
            return Outcome.inconclusive("scf_not_converged", labels)
        worst = 0.0
        for b in range(nrow):
            k = case["states"][b]
            exc = float(mol.cis_energies[b, k - 1]) if k > 0 else 0.0
            d = abs(float(mol.Etot[b]) - (float(mol.Eelec[b]) + float(mol.Enuc[b]) + exc))
            worst = max(worst, d)
            if d > 1e-6:
                return Outcome.fail("etot_partition:mixed_active_states", f"member {b} (active state {k}) of a batch with states {case['states']}: Etot - (Eelec+Enuc+E_exc) = "
                                    f"{float(mol.Etot[b]) - (float(mol.Eelec[b]) + float(mol.Enuc[b]) + exc):+.6f} eV", labels, True)
            try:
                m1, e1 = self._call(case, [b])
            except Exception:
                continue
            d2 = abs(float(m1.Etot[0]) - float(mol.Etot[b]))
            if d2 > 1e-6:
                return Outcome.fail("etot_depends_on_other_members_active_state", f"member {b} (state {k}): Etot in the mixed batch {float(mol.Etot[b]):.6f} vs alone {float(m1.Etot[0]):.6f}", labels, True)
            dh = abs(float(m1.Hf[0]) - float(mol.Hf[b]))
            if dh > 1e-6:
                return Outcome.fail("hf_depends_on_other_members_active_state", f"member {b}: Hf differs by {dh:.3e}", labels, True)
        return Outcome.ok(True, labels, partition=worst)


def torch_any(t):
    import torch as _t

    return bool(_t.as_tensor(t).any())


SUBCHECKS = [Identities(), MixedStates()]
