"""C12 -- the Langevin thermostat samples the canonical ensemble at the target temperature (DESIGN 3/C12).

 algebra     : on the real Molecular_Dynamics_Langevin object after initialize(): c1^2 + c2^2 m/(k_B T) = 1 for every real atom,
               c1 = exp(-dt/(2 tau)) (half-step factor), c2 = 0 on padding and at T = 0 -- with k_B/amu from CODATA, not from
               the repository's constant.
 stationary  : free particles (stub with k = 0; the two Ornstein-Uhlenbeck half steps are then exact for any dt): a
               Maxwell-Boltzmann ensemble at T stays Maxwell-Boltzmann at T after one_step(), per element (chi-square band),
               and the kinetic temperature averaged over a long run equals T within 5 standard errors (block averaging).
 limits      : tau = 1e12 fs reproduces the NVE trajectory from the same state; T = 0 never increases the total energy.
All randomness comes from torch's generator seeded from the case, so a run is a pure function of the case.
"""
import math

import numpy as np
from hypothesis import strategies as st

from .. import stubforce
from ..core import Outcome, SubCheck
from ..seqm_api import Constants, Molecule, silence, tonp, torch

PROPERTY = "C12"
LEVEL = "exploration"
RULE = ("algebra: Hypothesis draws dt/tau log-uniform in [1e-4, 10], dt in [0.05, 2] fs, T in {0} u [1, 2000] K, elements from the whole "
        "mass table, zero-padded batches; stationary: 3 x 240 free atoms of mixed elements, one step from an exact Maxwell-Boltzmann "
        "sample and 1500-step runs; limits: tau = 1e12 vs NVE, T = 0 energy monotone. non-trivial = T > 0 (algebra, stationary) / "
        "springs with non-zero stiffness (limits); distinct = case hash")
ASSUMPTIONS = ["k_B = 1.380649e-23 J/K, amu = 1.66053906660e-27 kg (CODATA 2018) define the reference for the noise amplitude",
               "statistical statements use fixed seeds and >= 5 sigma bands: a bias below ~1 % of T is invisible",
               "force field replaced by an analytic stub; thermostat, integrator and initialisation are the repository's code"]

KB_OVER_AMU = 1.380649e-23 / 1.66053906660e-27          # (m/s)^2 / K
VEL2 = KB_OVER_AMU * 1e-10                               # (A/fs)^2 per (K/amu): (1 m/s = 1e-5 A/fs)^2
ELEMENTS = [1, 3, 4, 5, 6, 7, 8, 9, 11, 12, 13, 14, 15, 16, 17]


VALENCE = {1: 1, 3: 1, 4: 2, 5: 3, 6: 4, 7: 5, 8: 6, 9: 7, 11: 1, 12: 2, 13: 3, 14: 4, 15: 5, 16: 6, 17: 7}


def _langevin(S, X, T, dt, tau, k, stretch=1.0, cls="langevin"):
    import seqm.MolecularDynamics as MDmod

    stubforce.install()
    # the Molecule object is the repository's and insists on a closed-shell electron count: rows with an odd number of
    # valence electrons are given charge +1 (the stub force field ignores charges)
    charges = torch.tensor([sum(VALENCE[int(z)] for z in row if z > 0) % 2 for row in np.asarray(S)])
    s = {"method": "AM1", "scf_eps": 1e-8, "scf_converger": [1]}
    s[stubforce.KEY] = stubforce.spec_for(S, X, k=k, stretch=stretch)
    out = {"molid": [], "prefix": "c12", "print every": 0, "xyz": 0, "checkpoint every": 0, "h5": {}}
    with silence():
        mol = Molecule(Constants(), s, torch.tensor(X), torch.tensor(S), charges=charges)
        if cls == "langevin":
            md = MDmod.Molecular_Dynamics_Langevin(damp=tau, seqm_parameters=s, Temp=T, timestep=dt, output=out)
        else:
            md = MDmod.Molecular_Dynamics_Basic(seqm_parameters=s, Temp=T, timestep=dt, output=out)
    return mol, md


@st.composite
def _alg_case(draw):
    B = draw(st.integers(1, 3))
    # >= 2 atoms per row: initialize() removes the centre-of-mass motion, which is all a single atom has
    rows = [sorted(draw(st.lists(st.sampled_from(ELEMENTS), min_size=2, max_size=5)), reverse=True) for _ in range(B)]
    case = {"rows": rows, "padw": draw(st.integers(0, 2)), "dt": draw(st.sampled_from([0.05, 0.1, 0.25, 0.5, 1.0, 2.0])),
            "ratio_exp": draw(st.integers(-40, 10)) / 10.0, "T": draw(st.sampled_from([0.0, 1.0, 10.0, 77.0, 300.0, 1000.0, 2000.0]))}
    if draw(st.booleans()):
        # the same driver object has been initialised before: on another molecule of the same tensor shape (elements
        # permuted between rows / replaced) and with other temperature, time step and damping time
        case["reused"] = {"T": draw(st.sampled_from([50.0, 500.0])), "dt": draw(st.sampled_from([0.2, 0.7])), "tau": draw(st.sampled_from([3.0, 80.0])),
                          "shift": draw(st.integers(1, 5))}
    return case


class Algebra(SubCheck):
    name = "algebra"
    budget = {"quick": 2000, "thorough": 60000}
    weight = 1.0

    def strategy(self, tier):
        return _alg_case()

    def oracle(self, case):
        rows = case["rows"]
        width = max(len(r) for r in rows) + case["padw"]
        S = np.zeros((len(rows), width), dtype=np.int64)
        X = np.zeros((len(rows), width, 3))
        for b, r in enumerate(rows):
            S[b, :len(r)] = r
            X[b, :len(r)] = 1.7 * np.arange(len(r))[:, None] * np.array([0.6, 0.64, 0.48]) + b
        dt = case["dt"]
        tau = dt / 10.0 ** case["ratio_exp"]
        T = case["T"]
        labels = ["ratio_decade:%d" % math.floor(case["ratio_exp"]), "T:%g" % T, "rows:%d" % len(rows), "padded:%s" % bool((S == 0).any())]
        labels += ["massrow:%d" % (1 if z <= 2 else 2 if z <= 10 else 3) for z in sorted({z for r in rows for z in r})]
        mol, md = _langevin(S, X, T, dt, tau, k=0.0)
        if case.get("reused"):
            labels.append("reused_driver")
            ru = case["reused"]
            # decoy of the same shape with other elements (same padding layout), initialised on the SAME driver object
            Sd = S.copy()
            for b in range(Sd.shape[0]):
                real = Sd[b] > 0
                zs = sorted((ELEMENTS[(ELEMENTS.index(int(z)) + ru["shift"]) % len(ELEMENTS)] for z in Sd[b][real]), reverse=True)
                Sd[b][real] = zs
            dmol, md = _langevin(Sd, X, ru["T"], ru["dt"], ru["tau"], k=0.0)
            try:
                with silence():
                    md.initialize(dmol, remove_com=None, steps=None)
            except Exception:
                pass
            md.Temp, md.timestep, md.damp = T, dt, tau
        try:
            with silence():
                md.initialize(mol, remove_com=None, steps=None)
        except Exception as e:
            if T == 0.0 and "Zero kinetic energy" in str(e):
                return Outcome.inconclusive("initialize_rejects_T0", labels)
            return Outcome.fail(f"exception:{type(e).__name__}", f"{type(e).__name__}: {str(e)[:200]}", labels)
        c1 = float(md.langevin_c1)
        c2 = tonp(torch.as_tensor(md.langevin_c2) * torch.ones(len(rows), width, 1)).reshape(len(rows), width)
        mass = tonp(Constants().mass)[S]
        want_c1 = math.exp(-dt / (2.0 * tau))
        if not (0.0 < c1 <= 1.0) or abs(c1 - want_c1) > 1e-13:
            return Outcome.fail("friction_factor", f"c1 = {c1!r}, exp(-dt/(2 tau)) = {want_c1!r} (dt={dt}, tau={tau:.4g})", labels, T > 0)
        worst = 0.0
        for b, r in enumerate(rows):
            for a in range(width):
                if S[b, a] == 0:
                    if c2[b, a] != 0.0:
                        return Outcome.fail("noise_on_padding", f"padding atom has noise amplitude {c2[b, a]:.3e}", labels, T > 0)
                    continue
                if T == 0.0:
                    if c2[b, a] != 0.0:
                        return Outcome.fail("noise_at_zero_temperature", f"T = 0 but c2 = {c2[b, a]:.3e}", labels, False)
                    continue
                fd = c1 * c1 + c2[b, a] ** 2 * mass[b, a] / (VEL2 * T)
                worst = max(worst, abs(fd - 1.0))
                if abs(fd - 1.0) > 2e-6 * (1.0 - c1 * c1) + 1e-13:
                    return Outcome.fail("fluctuation_dissipation", f"Z={S[b, a]} m={mass[b, a]}: c1^2 + c2^2 m/(k_B T) = {fd!r} (dt/tau = {dt / tau:.3g}, T = {T})", labels, True, fd=abs(fd - 1))
        return Outcome.ok(T > 0, labels, fd_defect=worst)


def _free_gas(nrow=3, nat=240):
    zs = sorted([ELEMENTS[i % len(ELEMENTS)] for i in range(nat)], reverse=True)
    S = np.array([zs] * nrow)
    g = np.arange(nat)
    X = np.stack([np.stack([3.0 * (g % 8), 3.0 * ((g // 8) % 8), 3.0 * (g // 64)], axis=1) + 50.0 * b for b in range(nrow)]).astype(float)
    return S, X


@st.composite
def _stat_case(draw):
    return {"dt": draw(st.sampled_from([0.2, 0.5, 1.0, 2.0])), "ratio": draw(st.sampled_from([0.01, 0.05, 0.2, 1.0, 3.0])),
            "T": draw(st.sampled_from([50.0, 300.0, 1500.0])), "seed": draw(st.integers(0, 10 ** 6)), "k": draw(st.sampled_from([0.0, 0.0, 0.02]))}


class Stationary(SubCheck):
    name = "stationary"
    budget = {"quick": 48, "thorough": 800}
    weight = 10.0

    def strategy(self, tier):
        return _stat_case()

    def oracle(self, case):
        import seqm.MolecularDynamics as MDmod

        S, X = _free_gas()
        dt, T = case["dt"], case["T"]
        tau = dt / case["ratio"]
        labels = ["ratio:%g" % case["ratio"], "T:%g" % T, "k:%g" % case["k"]]
        mol, md = _langevin(S, X, T, dt, tau, k=case["k"])
        mass = tonp(Constants().mass)[S]
        torch.manual_seed(case["seed"])
        with silence():
            md.initialize(mol, remove_com=None, steps=None)
        # exact Maxwell-Boltzmann sample at T (independent of the code's own initialisation)
        g = torch.Generator().manual_seed(case["seed"] + 1)
        sig = np.sqrt(VEL2 * T / mass)
        mol.velocities = torch.randn(S.shape + (3,), generator=g, dtype=torch.float64) * torch.tensor(sig)[..., None]
        with silence():
            md.esdriver(mol)
        mol.acc = mol.force * mol.mass_inverse * MDmod.CONSTANTS.ACC_SCALE
        torch.manual_seed(case["seed"] + 2)
        with silence():
            md.one_step(mol)
        v = tonp(mol.velocities)
        if case["k"] == 0.0:
            # per element: sum (v/sigma)^2 ~ chi-square with n dof; 5 sigma band
            for z in sorted(set(S.flatten().tolist())):
                sel = S == z
                x2 = float(((v[sel] / sig[sel][:, None]) ** 2).sum())
                n = 3 * int(sel.sum())
                dev = (x2 - n) / math.sqrt(2.0 * n)
                if abs(dev) > 5.0:
                    return Outcome.fail("maxwell_boltzmann_not_invariant", f"element Z={z}: after one step from an exact MB sample, sum (v/sigma)^2 = {x2:.1f} for {n} components ({dev:+.1f} sigma)", labels, True, dev=abs(dev))
        # long run: mean kinetic temperature
        nsteps, burn = 1500, 300
        Ts, Tcom = [], []
        Mtot = mass.sum(axis=1)
        with silence():
            for i in range(nsteps):
                md.one_step(mol)
                if i >= burn:
                    vv = tonp(mol.velocities)
                    Ts.append(float((mass[..., None] * vv ** 2).sum()) / (VEL2 * 3 * S.size))
                    vc = (mass[..., None] * vv).sum(axis=1) / Mtot[:, None]          # centre-of-mass velocity per row
                    Tcom.append(float((Mtot[:, None] * vc ** 2).sum()) / (VEL2 * 3 * S.shape[0]))
        Ts = np.array(Ts)
        # independence of the noise between atoms: the centre of mass of each row is itself a Brownian particle of mass M
        # and must sit at the same temperature (3 dof per row: a coarse estimate, but noise shared between atoms inflates it
        # by up to the number of atoms). Band: factor 3 either way around T.
        tc = float(np.mean(Tcom))
        if case["k"] == 0.0 and not (T / 3.0 < tc < 3.0 * T):
            return Outcome.fail("noise_correlated_between_atoms", f"centre-of-mass kinetic temperature of the {S.shape[1]}-atom rows = {tc:.1f} K, target {T} K "
                                f"(per-atom kinetic temperature {float(Ts.mean()):.1f} K)", labels, True, Tcom_ratio=tc / T)
        nb = 24
        blocks = Ts[: len(Ts) // nb * nb].reshape(nb, -1).mean(axis=1)
        mean, se = float(blocks.mean()), float(blocks.std(ddof=1) / math.sqrt(nb))
        dev = (mean - T) / max(se, 1e-12 * T)
        # soft springs: the O(dt^2) configurational bias is below the band for omega*dt <= 0.05; a floor of 0.3 % guards the
        # estimate of the standard error itself
        # band: 6 block-averaged standard errors + 0.4 % (block averaging with 24 blocks can underestimate the standard error
        # by ~30 % when the velocity correlation time approaches the block length; measured |dev| up to 3.1 se on the unchanged tree)
        if abs(mean - T) > 6.0 * se + 0.004 * T:
            return Outcome.fail("stationary_temperature", f"mean kinetic temperature over {nsteps - burn} steps x {3 * S.size} dof = {mean:.3f} K, target {T} K "
                                f"({dev:+.1f} standard errors of {se:.3f} K; dt/tau = {case['ratio']})", labels, True, dev=abs(dev))
        return Outcome.ok(True, labels, T_dev_sigma=abs(dev), T_rel=abs(mean - T) / T, Tcom_over_T=tc / T)


@st.composite
def _lim_case(draw):
    return {"kind": draw(st.sampled_from(["infinite_tau", "zero_T"])), "dt": draw(st.sampled_from([0.2, 0.5, 1.0])),
            "k": draw(st.sampled_from([5.0, 20.0])), "seed": draw(st.integers(0, 10 ** 6)), "steps": draw(st.integers(20, 60))}


class Limits(SubCheck):
    name = "limits"
    budget = {"quick": 160, "thorough": 4000}
    weight = 3.0

    def strategy(self, tier):
        return _lim_case()

    def oracle(self, case):
        import seqm.MolecularDynamics as MDmod

        S = np.array([[8, 1, 1, 0], [6, 1, 1, 1]])
        X = np.array([[[0.0, 0.0, 0.0], [0.76, 0.59, 0.1], [-0.76, 0.59, -0.05], [9.0, 9.0, 9.0]],
                      [[3.0, 0.0, 0.0], [3.63, 0.63, 0.63], [2.37, -0.63, 0.63], [2.37, 0.63, -0.63]]])
        labels = ["kind:" + case["kind"], "dt:%g" % case["dt"]]
        rng = np.random.default_rng(case["seed"])
        v0 = rng.normal(size=X.shape) * 0.01 * (S > 0)[..., None]
        KES = MDmod.CONSTANTS.KINETIC_ENERGY_SCALE
        mass = tonp(Constants().mass)[S]

        def run(cls, T, tau):
            mol, md = _langevin(S, X, T, case["dt"], tau, k=case["k"], stretch=1.06, cls=cls)
            torch.manual_seed(case["seed"])
            with silence():
                md.initialize(mol, remove_com=None, steps=None) if cls != "langevin" or T > 0 else None
            mol.velocities = torch.tensor(v0)
            with silence():
                md.esdriver(mol)
            mol.acc = mol.force * mol.mass_inverse * MDmod.CONSTANTS.ACC_SCALE
            if cls == "langevin" and not hasattr(md, "langevin_c1"):
                s_ = torch.as_tensor(-case["dt"] / tau)
                md.langevin_c1 = torch.exp(0.5 * s_)
                md.langevin_c2 = torch.sqrt(-torch.expm1(s_) * T * mol.mass_inverse) * MDmod.CONSTANTS.VEL_SCALE
            traj, E = [], []
            with silence():
                for _ in range(case["steps"]):
                    md.one_step(mol)
                    traj.append(tonp(mol.coordinates).copy())
                    vv = tonp(mol.velocities)
                    E.append(tonp(mol.Etot) + 0.5 * (mass[..., None] * vv ** 2).sum(axis=(1, 2)) * KES)
            return np.array(traj), np.array(E)

        if case["kind"] == "infinite_tau":
            # The noise amplitude vanishes only like tau^-1/2 (c2 = sqrt(dt/tau k_B T/m)): at tau = 1e12 fs and 300 K the kicks
            # are still 1.6e-8 A/fs and displace the trajectory by ~1e-7..1e-5 A in 20-60 steps -- my first version asserted
            # 1e-9 there and was wrong. The limit statement is checked as a limit: the deviation at tau = 1e20 fs is below
            # 1e-9 A and at least 1e3 times smaller than at tau = 1e12 fs.
            b, _ = run("bomd", 300.0, None)
            a12, _ = run("langevin", 300.0, 1e12)
            a20, _ = run("langevin", 300.0, 1e20)
            d12, d20 = float(np.abs(a12 - b).max()), float(np.abs(a20 - b).max())
            # measured on the unchanged tree: d(1e20)/d(1e12) = 1.0000e-4 = sqrt(1e12/1e20), d(1e20) up to 1.2e-9 A
            if d20 > 1e-7:
                return Outcome.fail("infinite_damping_time_differs_from_nve", f"tau = 1e20 fs: trajectory differs from NVE by {d20:.3e} A after {case['steps']} steps", labels, True, d=d20)
            if d12 > 1e-8 and d20 > 2e-4 * d12 + 1e-12:
                return Outcome.fail("deviation_from_nve_does_not_vanish_with_tau", f"deviation from NVE: {d12:.3e} A at tau=1e12, {d20:.3e} A at tau=1e20 (expected ratio 1e-4)", labels, True)
            return Outcome.ok(True, labels, nve_diff_tau1e20=d20, nve_diff_tau1e12=d12)
        _, E = run("langevin", 0.0, 5.0 * case["dt"])
        inc = float(np.diff(E, axis=0).max())
        if inc > 1e-10 * max(1.0, float(np.abs(E).max())) + 1e-12:
            # the half-step friction scheme is dissipative only up to O(dt^2) exchanges between kinetic and potential energy
            # within a step; what must never happen at T = 0 is a net gain over a window of a vibrational period
            win = max(2, int(round(2 * math.pi / math.sqrt(case["k"] * 0.00964853 / 1.0) / case["dt"])))
            if len(E) > win and float((E[win:] - E[:-win]).max()) > 1e-9:
                return Outcome.fail("zero_temperature_thermostat_adds_energy", f"T = 0: total energy rises by {float((E[win:] - E[:-win]).max()):.3e} eV over {win} steps", labels, True)
        return Outcome.ok(True, labels, max_step_increase=max(inc, 0.0))


SUBCHECKS = [Algebra(), Stationary(), Limits()]
