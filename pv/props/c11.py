"""C11 -- every output stream is written at exactly its own cadence (DESIGN 3/C11).

Stub-driven: the property is about run(), OutputConfig, HDF5Writer, XYZWriter. The force field is the analytic stub
(stubforce.py); every line of output code executed is the repository's.

Reference model (from the property text and docs/source/bomd.rst "independent cadences", "a group exists only if its
cadence > 0"): HDF5 stream s and the XYZ file contain exactly steps {0} u {j : 1 <= j <= steps, j mod c_s == 0}, ascending,
dataset length == that count (no filler rows), group/file absent iff c_s == 0. Values of step j equal the row of a
cadence-1 reference run at step j (independence from the other cadences). Screen lines and checkpoints: the manual
promises only "every N steps", so exactly the positive multiples are required and an initial entry is tolerated.
"""
import glob
import itertools
import os
import re
import shutil
import tempfile

import h5py
import numpy as np
from hypothesis import strategies as st

from .. import stubforce
from ..core import Outcome, SubCheck
from ..seqm_api import Constants, Molecule, silence, torch

PROPERTY = "C11"
LEVEL = "exploration"
RULE = ("exhaustive lattice (data,coordinates,velocities,forces) in {0..4}^4 x steps in {6,12} on a zero-padded 2-molecule "
        "batch, plus Hypothesis over cadences in {0..7, steps+1, 50} for data/coordinates/velocities/forces/xyz/print/"
        "checkpoint x steps 1..14 x molid subsets of a 3-row batch x {BOMD, Langevin} x {fresh, crashed-and-resumed}; "
        "oracle = reference model of due steps + row values of a cadence-1 reference run; non-trivial = at least two "
        "positive cadences neither of which divides the other; distinct = distinct case hash")
ASSUMPTIONS = ["force field replaced by an analytic pair-spring stub; all output, run-loop and checkpoint code is the repository's",
               "screen and checkpoint streams: only the positive multiples are asserted (the manual promises no initial entry)"]

VEC = ("coordinates", "velocities", "forces")
SPECIES = [[8, 1, 1, 0, 0], [6, 1, 1, 1, 1], [7, 1, 1, 1, 0]]
COORDS = [[[0.0, 0.0, 0.0], [0.96, 0.0, 0.1], [-0.24, 0.93, 0.05], [0.0, 0.0, 0.0], [0.0, 0.0, 0.0]],
          [[0.0, 0.0, 0.0], [0.63, 0.63, 0.63], [-0.63, -0.63, 0.63], [-0.63, 0.63, -0.63], [0.63, -0.63, -0.63]],
          [[0.0, 0.0, 0.0], [0.94, 0.1, 0.3], [-0.4, 0.9, 0.25], [-0.45, -0.8, 0.4], [0.0, 0.0, 0.0]]]


def due(steps, c):
    if c <= 0:
        return []
    return [0] + [j for j in range(1, steps + 1) if j % c == 0]


class _Crash(BaseException):
    pass


def _run(case, cad, workdir, tag, crash_after_checkpoint=None):
    """run one MD job with cadences `cad`; returns captured stdout. Soft crash (exception right after the n-th
    checkpoint has been saved) + run_from_checkpoint when crash_after_checkpoint is given."""
    import seqm.MolecularDynamics as MDmod

    stubforce.install()
    nrow = case["nrow"]
    sp = torch.tensor(SPECIES[:nrow])
    xyz = torch.tensor(COORDS[:nrow], dtype=torch.float64)
    s = {"method": "AM1", "scf_eps": 1e-8, "scf_converger": [1]}
    s[stubforce.KEY] = stubforce.spec_for(SPECIES[:nrow], COORDS[:nrow], k=case.get("k", 25.0), stretch=1.05)
    prefix = os.path.join(workdir, tag)
    out = {"molid": list(case["molid"]), "prefix": prefix, "print every": cad.get("print", 0), "xyz": cad.get("xyz", 0),
           "checkpoint every": cad.get("checkpoint", 0),
           "h5": {"data": cad["data"], "coordinates": cad["coordinates"], "velocities": cad["velocities"], "forces": cad["forces"]}}
    with silence() as buf:
        mol = Molecule(Constants(), s, xyz.clone(), sp, charges=torch.tensor([0, 0, 0][:nrow]))
        if case["engine"] == "langevin":
            md = MDmod.Molecular_Dynamics_Langevin(damp=30.0, seqm_parameters=s, Temp=300.0, timestep=0.4, output=out)
        else:
            md = MDmod.Molecular_Dynamics_Basic(seqm_parameters=s, Temp=300.0, timestep=0.4, output=out)
        if crash_after_checkpoint is None:
            md.run(mol, steps=case["steps"], remove_com=None, seed=case.get("seed", 3))
        else:
            orig = md.save_checkpoint
            count = [0]

            def save_and_crash(*a, **kw):
                orig(*a, **kw)
                count[0] += 1
                if count[0] == crash_after_checkpoint:
                    raise _Crash()

            md.save_checkpoint = save_and_crash
            try:
                md.run(mol, steps=case["steps"], remove_com=None, seed=case.get("seed", 3))
            except _Crash:
                MDmod.Molecular_Dynamics_Basic.run_from_checkpoint(prefix + ".restart.pt")
    return buf.getvalue(), prefix


def _read(prefix, molid):
    res = {}
    for m in molid:
        d = {}
        path = f"{prefix}.{m}.h5"
        if os.path.exists(path):
            with h5py.File(path, "r") as f:
                if "data" in f and "steps" in f["data"]:
                    d["data"] = {"steps": f["data/steps"][...], "T": f["data/thermo/T"][...], "Ek": f["data/thermo/Ek"][...],
                                 "Ep": f["data/thermo/Ep"][...]}
                for v in VEC:
                    if v in f:
                        d[v] = {"steps": f[f"{v}/steps"][...], "values": f[f"{v}/values"][...]}
        xp = f"{prefix}.{m}.xyz"
        if os.path.exists(xp):
            txt = open(xp).read()
            d["xyz"] = [int(x) for x in re.findall(r"^step:\s*(-?\d+)", txt, flags=re.M)]
            d["xyz_size"] = len(txt)
        res[m] = d
    return res


_REF = {}


def _reference(case, workdir):
    key = (case["engine"], case["steps"], case["nrow"], case.get("seed", 3), case.get("k", 25.0))
    if key not in _REF:
        c = dict(case, molid=list(range(case["nrow"])))
        _, prefix = _run(c, {"data": 1, "coordinates": 1, "velocities": 1, "forces": 1, "xyz": 1}, workdir, "ref")
        _REF[key] = _read(prefix, c["molid"])
        for p in glob.glob(prefix + ".*"):
            os.remove(p)
    return _REF[key]


def nontrivial(cad):
    pos = sorted({v for k, v in cad.items() if v > 0 and k in ("data", "xyz") + VEC})
    return any(a % b != 0 and b % a != 0 for a, b in itertools.combinations(pos, 2))


def check_case(case):
    cad = case["cad"]
    steps = case["steps"]
    labels = ["engine:" + case["engine"], "steps:%d" % steps, "resumed:%s" % bool(case.get("crash")),
              "molid:%s" % ",".join(map(str, case["molid"]))]
    labels += ["zero_cadence"] if any(cad[k] == 0 for k in ("data",) + VEC) else []
    labels += ["cadence_gt_steps"] if any(cad.get(k, 0) > steps for k in cad) else []
    nt = nontrivial(cad)
    wd = tempfile.mkdtemp(prefix="c11_", dir=os.getcwd())
    try:
        ref = _reference(case, wd)
        crash = case.get("crash")
        if crash and (cad.get("checkpoint", 0) <= 0 or crash * cad["checkpoint"] >= steps):
            crash = None  # no checkpoint strictly inside the run: plain run
        try:
            stdout, prefix = _run(case, cad, wd, "run", crash_after_checkpoint=crash)
        except Exception as e:
            return Outcome.fail(f"exception:{type(e).__name__}", f"{type(e).__name__}: {e}", labels, nt)
        got = _read(prefix, case["molid"])
        for m in case["molid"]:
            g = got[m]
            for stream in ("data",) + VEC:
                c = cad[stream]
                want = due(steps, c)
                if c == 0:
                    if stream in g:
                        return Outcome.fail(f"group_present_for_zero_cadence:{stream}", f"mol {m}: /{stream} exists although cadence is 0", labels, nt)
                    continue
                if stream not in g:
                    return Outcome.fail(f"group_missing:{stream}", f"mol {m}: /{stream} missing although cadence is {c}", labels, nt)
                have = [int(x) for x in g[stream]["steps"]]
                if have != want:
                    kind = "filler_or_missing_rows" if len(have) == len(want) else ("missing_rows" if len(have) < len(want) else "extra_rows")
                    resumed = ""  # same root cause fresh or resumed: one bucket per fix
                    return Outcome.fail(f"{kind}:{'vector' if stream in VEC else 'data'}{resumed}",
                                        f"mol {m} /{stream} cadence {c} steps={steps} (cadences {cad}): stored step labels {have}, expected {want}",
                                        labels, nt)
                # values: independent of the other cadences == rows of the cadence-1 reference run
                r = ref[m][stream]
                if stream == "data":
                    for q in ("T", "Ek", "Ep"):
                        if not np.array_equal(g["data"][q], r[q][want]):
                            d = float(np.abs(g["data"][q] - r[q][want]).max())
                            return Outcome.fail(f"wrong_values:data{':resumed' if crash else ''}", f"mol {m} data/{q} differs from the cadence-1 run by {d:.3e}", labels, nt)
                else:
                    if not np.array_equal(g[stream]["values"], r["values"][want]):
                        d = float(np.abs(g[stream]["values"] - r["values"][want]).max())
                        return Outcome.fail(f"wrong_values:vector{':resumed' if crash else ''}", f"mol {m} /{stream} values differ from the cadence-1 run by {d:.3e}", labels, nt)
            cx = cad.get("xyz", 0)
            if cx == 0:
                if g.get("xyz_size", 0) > 0:
                    return Outcome.fail("xyz_present_for_zero_cadence", f"mol {m}: xyz written although cadence 0", labels, nt)
            else:
                if g.get("xyz") != due(steps, cx):
                    return Outcome.fail(f"xyz_frames{':resumed' if crash else ''}", f"mol {m} xyz cadence {cx}: frames {g.get('xyz')}, expected {due(steps, cx)}", labels, nt)
        # other molecules must have no files
        for m in range(case["nrow"]):
            if m not in case["molid"] and (os.path.exists(f"{prefix}.{m}.h5") or os.path.exists(f"{prefix}.{m}.xyz")):
                return Outcome.fail("file_for_unselected_molecule", f"output written for molecule {m} not in molid {case['molid']}", labels, nt)
        # screen: exactly the positive multiples (initial line tolerated)
        p = cad.get("print", 0)
        if not crash:
            printed = [int(x) for x in re.findall(r"^\s*(\d+)\s+-?\d+\.\d+\s", stdout, flags=re.M)]
            want = [j for j in range(1, steps + 1) if p > 0 and j % p == 0] if case["molid"] else []
            if [x for x in printed if x != 0] != want:
                return Outcome.fail("screen_lines", f"print every {p}, steps {steps}: printed steps {printed}, expected {want}", labels, nt)
        # checkpoint: present iff a multiple was reached, step_done = largest multiple
        ck = cad.get("checkpoint", 0)
        path = prefix + ".restart.pt"
        last = (steps // ck) * ck if ck > 0 else 0
        if last > 0:
            if not os.path.exists(path):
                return Outcome.fail("checkpoint_missing", f"checkpoint every {ck}, steps {steps}: no restart file", labels, nt)
            sd = torch.load(path, map_location="cpu", weights_only=False)["step_done"]
            if sd != last:
                return Outcome.fail("checkpoint_step", f"checkpoint every {ck}, steps {steps}: step_done {sd}, expected {last}", labels, nt)
        elif os.path.exists(path):
            return Outcome.fail("checkpoint_unexpected", f"checkpoint every {ck}, steps {steps}: restart file exists", labels, nt)
        return Outcome.ok(nt, labels)
    finally:
        shutil.rmtree(wd, ignore_errors=True)


class Lattice(SubCheck):
    name = "lattice"
    budget = {}
    shards = {"quick": 16, "thorough": 16}
    weight = 2.0

    def enumerate(self, tier):
        top = 5 if tier == "quick" else 7
        lens = (6, 12) if tier == "quick" else (5, 6, 12, 13)
        for steps in lens:
            for d, c, v, f in itertools.product(range(top), repeat=4):
                yield {"engine": "bomd", "steps": steps, "nrow": 2, "molid": [0, 1],
                       "cad": {"data": d, "coordinates": c, "velocities": v, "forces": f, "xyz": 0, "print": 0, "checkpoint": 0}}

    def oracle(self, case):
        return check_case(case)


@st.composite
def _gen(draw):
    steps = draw(st.integers(1, 14))
    cadv = st.sampled_from([0, 1, 2, 3, 4, 5, 6, 7, steps + 1, 50])
    nrow = draw(st.integers(1, 3))
    molid = draw(st.lists(st.integers(0, nrow - 1), unique=True, min_size=1, max_size=nrow).map(sorted))
    cad = {k: draw(cadv) for k in ("data", "coordinates", "velocities", "forces", "xyz", "print")}
    cad["checkpoint"] = draw(st.sampled_from([0, 0, 1, 2, 3, 4, 5, steps + 1]))
    case = {"engine": draw(st.sampled_from(["bomd", "langevin"])), "steps": steps, "nrow": nrow, "molid": molid, "cad": cad,
            "seed": draw(st.integers(0, 5))}
    if cad["checkpoint"] > 0 and draw(st.booleans()):
        case["crash"] = draw(st.integers(1, 3))
    return case


class Generated(SubCheck):
    name = "generated"
    budget = {"quick": 1500, "thorough": 20000}
    weight = 1.0

    def strategy(self, tier):
        return _gen()

    def oracle(self, case):
        return check_case(case)

    def simplify(self, case):
        for k in ("xyz", "print", "checkpoint", "data", "coordinates", "velocities", "forces"):
            if case["cad"].get(k, 0) != 0:
                yield dict(case, cad=dict(case["cad"], **{k: 0}))
        if case.get("crash"):
            c = dict(case)
            c.pop("crash")
            yield c
        if case["engine"] != "bomd":
            yield dict(case, engine="bomd")
        if case["nrow"] > 1:
            yield dict(case, nrow=1, molid=[0])


SUBCHECKS = [Lattice(), Generated()]
