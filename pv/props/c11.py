"""C11 -- every output stream is written at exactly its own cadence (DESIGN 3/C11).

Stub-driven: the property is about run(), OutputConfig, HDF5Writer, XYZWriter. The force field is the analytic stub
(stubforce.py); every line of output code executed is the repository's.

Reference model (from the property text and docs/source/bomd.rst "independent cadences", "a group exists only if its
cadence > 0"): HDF5 stream s and the XYZ file contain exactly steps {0} u {j : 1 <= j <= steps, j mod c_s == 0}, ascending,
dataset length == that count (no filler rows), group/file absent iff c_s == 0. Values of step j equal the row of a
cadence-1 reference run at step j (independence from the other cadences). Screen lines and checkpoints: the manual
promises only "every N steps", so exactly the positive multiples are required and an initial entry is tolerated.
"""
import glob
import itertools
import os
import re
import shutil
import tempfile

import h5py
import numpy as np
from hypothesis import strategies as st

from .. import stubforce
from ..core import Outcome, SubCheck
from ..seqm_api import Constants, Molecule, silence, torch

PROPERTY = "C11"
LEVEL = "exploration"
RULE = ("exhaustive lattice (data,coordinates,velocities,forces) in {0..4}^4 x steps in {6,12} on a zero-padded 2-molecule "
        "batch, plus Hypothesis over cadences in {0..7, steps+1, 50} for data/coordinates/velocities/forces/xyz/print/"
        "checkpoint x steps 1..14 x molid subsets of a 3-row batch x {BOMD, Langevin} x {fresh, crashed-and-resumed}; "
        "oracle = reference model of due steps + row values of a cadence-1 reference run; non-trivial = at least two "
        "positive cadences neither of which divides the other; distinct = distinct case hash")
ASSUMPTIONS = ["force field replaced by an analytic pair-spring stub; all output, run-loop and checkpoint code is the repository's",
               "screen and checkpoint streams: only the positive multiples are asserted (the manual promises no initial entry)"]

VEC = ("coordinates", "velocities", "forces")
SPECIES = [[8, 1, 1, 0, 0], [6, 1, 1, 1, 1], [7, 1, 1, 1, 0]]
COORDS = [[[0.0, 0.0, 0.0], [0.96, 0.0, 0.1], [-0.24, 0.93, 0.05], [0.0, 0.0, 0.0], [0.0, 0.0, 0.0]],
          [[0.0, 0.0, 0.0], [0.63, 0.63, 0.63], [-0.63, -0.63, 0.63], [-0.63, 0.63, -0.63], [0.63, -0.63, -0.63]],
          [[0.0, 0.0, 0.0], [0.94, 0.1, 0.3], [-0.4, 0.9, 0.25], [-0.45, -0.8, 0.4], [0.0, 0.0, 0.0]]]


def due(steps, c):
    if c <= 0:
        return []
    return [0] + [j for j in range(1, steps + 1) if j % c == 0]


class _Crash(BaseException):
    pass


def _run(case, cad, workdir, tag, crash_after_checkpoint=None):
    """run one MD job with cadences `cad`; returns captured stdout. Soft crash (exception right after the n-th
    checkpoint has been saved) + run_from_checkpoint when crash_after_checkpoint is given."""
    import seqm.MolecularDynamics as MDmod

    stubforce.install()
    nrow = case["nrow"]
    sp = torch.tensor(SPECIES[:nrow])
    xyz = torch.tensor(COORDS[:nrow], dtype=torch.float64)
    s = {"method": "AM1", "scf_eps": 1e-8, "scf_converger": [1]}
    s[stubforce.KEY] = stubforce.spec_for(SPECIES[:nrow], COORDS[:nrow], k=case.get("k", 25.0), stretch=1.05)
    prefix = os.path.join(workdir, tag)
    out = {"molid": list(case["molid"]), "prefix": prefix, "print every": cad.get("print", 0), "xyz": cad.get("xyz", 0),
           "checkpoint every": cad.get("checkpoint", 0),
           "h5": {"data": cad["data"], "coordinates": cad["coordinates"], "velocities": cad["velocities"], "forces": cad["forces"]}}
    with silence() as buf:
        mol = Molecule(Constants(), s, xyz.clone(), sp, charges=torch.tensor([0, 0, 0][:nrow]))
        if case["engine"] == "langevin":
            md = MDmod.Molecular_Dynamics_Langevin(damp=30.0, seqm_parameters=s, Temp=300.0, timestep=0.4, output=out)
        else:
            md = MDmod.Molecular_Dynamics_Basic(seqm_parameters=s, Temp=300.0, timestep=0.4, output=out)
        if crash_after_checkpoint is None:
            md.run(mol, steps=case["steps"], remove_com=None, seed=case.get("seed", 3))
        else:
            orig = md.save_checkpoint
            count = [0]

            def save_and_crash(*a, **kw):
                orig(*a, **kw)
                count[0] += 1
                if count[0] == crash_after_checkpoint:
                    raise _Crash()

            md.save_checkpoint = save_and_crash
            try:
                md.run(mol, steps=case["steps"], remove_com=None, seed=case.get("seed", 3))
            except _Crash:
                MDmod.Molecular_Dynamics_Basic.run_from_checkpoint(prefix + ".restart.pt")
    return buf.getvalue(), prefix


def _read(prefix, molid):
    res = {}
    for m in molid:
        d = {}
        path = f"{prefix}.{m}.h5"
        if os.path.exists(path):
            with h5py.File(path, "r") as f:
                if "data" in f and "steps" in f["data"]:
                    d["data"] = {"steps": f["data/steps"][...], "T": f["data/thermo/T"][...], "Ek": f["data/thermo/Ek"][...],
                                 "Ep": f["data/thermo/Ep"][...]}
                for v in VEC:
                    if v in f:
                        d[v] = {"steps": f[f"{v}/steps"][...], "values": f[f"{v}/values"][...]}
        xp = f"{prefix}.{m}.xyz"
        if os.path.exists(xp):
            txt = open(xp).read()
            d["xyz"] = [int(x) for x in re.findall(r"^step:\s*(-?\d+)", txt, flags=re.M)]
            d["xyz_size"] = len(txt)
        res[m] = d
    return res


_REF = {}


def _reference(case, workdir):
    key = (case["engine"], case["steps"], case["nrow"], case.get("seed", 3), case.get("k", 25.0))
    if key not in _REF:
        c = dict(case, molid=list(range(case["nrow"])))
        _, prefix = _run(c, {"data": 1, "coordinates": 1, "velocities": 1, "forces": 1, "xyz": 1}, workdir, "ref")
        _REF[key] = _read(prefix, c["molid"])
        for p in glob.glob(prefix + ".*"):
            os.remove(p)
    return _REF[key]


def nontrivial(cad):
    pos = sorted({v for k, v in cad.items() if v > 0 and k in ("data", "xyz") + VEC})
    return any(a % b != 0 and b % a != 0 for a, b in itertools.combinations(pos, 2))


def check_case(case):
    cad = case["cad"]
    steps = case["steps"]
    labels = ["engine:" + case["engine"], "steps:%d" % steps, "resumed:%s" % bool(case.get("crash")),
              "molid:%s" % ",".join(map(str, case["molid"]))]
    labels += ["zero_cadence"] if any(cad[k] == 0 for k in ("data",) + VEC) else []
    labels += ["cadence_gt_steps"] if any(cad.get(k, 0) > steps for k in cad) else []
    nt = nontrivial(cad)
    wd = tempfile.mkdtemp(prefix="c11_", dir=os.getcwd())
    try:
        ref = _reference(case, wd)
        crash = case.get("crash")
        if crash and (cad.get("checkpoint", 0) <= 0 or crash * cad["checkpoint"] >= steps):
            crash = None  # no checkpoint strictly inside the run: plain run
        try:
            stdout, prefix = _run(case, cad, wd, "run", crash_after_checkpoint=crash)
        except Exception as e:
            return Outcome.fail(f"exception:{type(e).__name__}", f"{type(e).__name__}: {e}", labels, nt)
        got = _read(prefix, case["molid"])
        for m in case["molid"]:
            g = got[m]
            for stream in ("data",) + VEC:
                c = cad[stream]
                want = due(steps, c)
                if c == 0:
                    if stream in g:
                        return Outcome.fail(f"group_present_for_zero_cadence:{stream}", f"mol {m}: /{stream} exists although cadence is 0", labels, nt)
                    continue
                if stream not in g:
                    return Outcome.fail(f"group_missing:{stream}", f"mol {m}: /{stream} missing although cadence is {c}", labels, nt)
                have = [int(x) for x in g[stream]["steps"]]
                if have != want:
                    kind = "filler_or_missing_rows" if len(have) == len(want) else ("missing_rows" if len(have) < len(want) else "extra_rows")
                    resumed = ""  # same root cause fresh or resumed: one bucket per fix
                    return Outcome.fail(f"{kind}:{'vector' if stream in VEC else 'data'}{resumed}",
                                        f"mol {m} /{stream} cadence {c} steps={steps} (cadences {cad}): stored step labels {have}, expected {want}",
                                        labels, nt)
                # values: independent of the other cadences == rows of the cadence-1 reference run
                r = ref[m][stream]
                if stream == "data":
                    for q in ("T", "Ek", "Ep"):
                        if not np.array_equal(g["data"][q], r[q][want]):
                            d = float(np.abs(g["data"][q] - r[q][want]).max())
                            return Outcome.fail(f"wrong_values:data{':resumed' if crash else ''}", f"mol {m} data/{q} differs from the cadence-1 run by {d:.3e}", labels, nt)
                else:
                    if not np.array_equal(g[stream]["values"], r["values"][want]):
                        d = float(np.abs(g[stream]["values"] - r["values"][want]).max())
                        return Outcome.fail(f"wrong_values:vector{':resumed' if crash else ''}", f"mol {m} /{stream} values differ from the cadence-1 run by {d:.3e}", labels, nt)
            cx = cad.get("xyz", 0)
            if cx == 0:
                if g.get("xyz_size", 0) > 0:
                    return Outcome.fail("xyz_present_for_zero_cadence", f"mol {m}: xyz written although cadence 0", labels, nt)
            else:
                if g.get("xyz") != due(steps, cx):
                    return Outcome.fail(f"xyz_frames{':resumed' if crash else ''}", f"mol {m} xyz cadence {cx}: frames {g.get('xyz')}, expected {due(steps, cx)}", labels, nt)
        # other molecules must have no files
        for m in range(case["nrow"]):
            if m not in case["molid"] and (os.path.exists(f"{prefix}.{m}.h5") or os.path.exists(f"{prefix}.{m}.xyz")):
                return Outcome.fail("file_for_unselected_molecule", f"output written for molecule {m} not in molid {case['molid']}", labels, nt)
        # screen: exactly the positive multiples (initial line tolerated)
        p = cad.get("print", 0)
        if not crash:
            printed = [int(x) for x in re.findall(r"^\s*(\d+)\s+-?\d+\.\d+\s", stdout, flags=re.M)]
            want = [j for j in range(1, steps + 1) if p > 0 and j % p == 0] if case["molid"] else []
            if [x for x in printed if x != 0] != want:
                return Outcome.fail("screen_lines", f"print every {p}, steps {steps}: printed steps {printed}, expected {want}", labels, nt)
        # checkpoint: present iff a multiple was reached, step_done = largest multiple
        ck = cad.get("checkpoint", 0)
        path = prefix + ".restart.pt"
        last = (steps // ck) * ck if ck > 0 else 0
        if last > 0:
            if not os.path.exists(path):
                return Outcome.fail("checkpoint_missing", f"checkpoint every {ck}, steps {steps}: no restart file", labels, nt)
            sd = torch.load(path, map_location="cpu", weights_only=False)["step_done"]
            if sd != last:
                return Outcome.fail("checkpoint_step", f"checkpoint every {ck}, steps {steps}: step_done {sd}, expected {last}", labels, nt)
        elif os.path.exists(path):
            return Outcome.fail("checkpoint_unexpected", f"checkpoint every {ck}, steps {steps}: restart file exists", labels, nt)
        return Outcome.ok(nt, labels)
    finally:
        shutil.rmtree(wd, ignore_errors=True)


class Lattice(SubCheck):
    name = "lattice"
    budget = {}
    shards = {"quick": 16, "thorough": 16}
    weight = 2.0

    def enumerate(self, tier):
        top = 5 if tier == "quick" else 7
        lens = (6, 12) if tier == "quick" else (5, 6, 12, 13)
        for steps in lens:
            for d, c, v, f in itertools.product(range(top), repeat=4):
                yield {"engine": "bomd", "steps": steps, "nrow": 2, "molid": [0, 1],
                       "cad": {"data": d, "coordinates": c, "velocities": v, "forces": f, "xyz": 0, "print": 0, "checkpoint": 0}}

    def oracle(self, case):
        return check_case(case)


@st.composite
def _gen(draw):
    steps = draw(st.integers(1, 14))
    cadv = st.sampled_from([0, 1, 2, 3, 4, 5, 6, 7, steps + 1, 50])
    nrow = draw(st.integers(1, 3))
    molid = draw(st.lists(st.integers(0, nrow - 1), unique=True, min_size=1, max_size=nrow).map(sorted))
    cad = {k: draw(cadv) for k in ("data", "coordinates", "velocities", "forces", "xyz", "print")}
    cad["checkpoint"] = draw(st.sampled_from([0, 0, 1, 2, 3, 4, 5, steps + 1]))
    case = {"engine": draw(st.sampled_from(["bomd", "langevin"])), "steps": steps, "nrow": nrow, "molid": molid, "cad": cad,
            "seed": draw(st.integers(0, 5))}
    if cad["checkpoint"] > 0 and draw(st.booleans()):
        case["crash"] = draw(st.integers(1, 3))
    return case


class Generated(SubCheck):
    name = "generated"
    budget = {"quick": 1500, "thorough": 20000}
    weight = 1.0

    def strategy(self, tier):
        return _gen()

    def oracle(self, case):
        return check_case(case)

    def simplify(self, case):
        for k in ("xyz", "print", "checkpoint", "data", "coordinates", "velocities", "forces"):
            if case["cad"].get(k, 0) != 0:
                yield dict(case, cad=dict(case["cad"], **{k: 0}))
        if case.get("crash"):
            c = dict(case)
            c.pop("crash")
            yield c
        if case["engine"] != "bomd":
            yield dict(case, engine="bomd")
        if case["nrow"] > 1:
            yield dict(case, nrow=1, molid=[0])


# ------------------------------------------------------------------------------------------------ surface-hopping stream (real FSSH)
@st.composite
def _fcase(draw):
    steps = draw(st.integers(8, 16))
    return {"tpl": draw(st.sampled_from(["H2O", "H2CO"])), "nmol": draw(st.integers(1, 2)), "nstates": draw(st.sampled_from([2, 3])),
            "na": draw(st.sampled_from([1, 2, 2, 3])), "data": draw(st.sampled_from([1, 2])), "steps": steps, "seed": draw(st.integers(0, 50)),
            "draw": draw(st.sampled_from(["eager", "eager", "rng"])), "method": draw(st.sampled_from(["AM1", "PM3"]))}


class FsshStream(SubCheck):
    """The nonadiabatic HDF5 stream of a REAL surface-hopping run (SCF + CIS driven): every row written for step j holds the active
    surface and the electronic amplitudes the driver has AFTER step j is complete (hops, relabelling and collapse applied), at
    exactly the due steps. Ground truth = the driver's own state captured right after each integrator step. With draw = 'eager'
    the harness owns the hop lottery (uniform draw fixed at 1e-6), so surface changes are frequent and land on written steps."""
    name = "fssh_stream"
    budget = {"quick": 24, "thorough": 600}
    weight = 6.0

    def strategy(self, tier):
        return _fcase()

    def oracle(self, case):
        from seqm.NonadiabaticDynamics import NonadiabaticDynamicsBase, SurfaceHoppingDynamics

        from .. import molecules as M

        stubforce.uninstall()
        labels = ["tpl:" + case["tpl"], "nmol:%d" % case["nmol"], "nstates:%d" % case["nstates"], "na:%d" % case["na"], "draw:" + case["draw"]]
        geoms = [M.geometry({"tpl": case["tpl"], "amp": 0.05, "disp": [((5 * i + 3 * b + case["seed"]) % 11 - 5) / 5.0 for i in range(3 * len(M.ALL[case["tpl"]]["Z"]))]})
                 for b in range(case["nmol"])]
        sp = torch.tensor([list(g[0]) for g in geoms])
        xyz = torch.tensor(np.array([g[1] for g in geoms]), dtype=torch.float64)
        s = {"method": case["method"], "scf_eps": 1e-8, "scf_converger": [1], "excited_states": {"n_states": case["nstates"], "method": "cis"}}
        wd = tempfile.mkdtemp(prefix="pv_c11f_")
        captured = {}
        orig_step = NonadiabaticDynamicsBase._do_integrator_step
        orig_hop = SurfaceHoppingDynamics._attempt_hop

        def rec_step(self, i, molecule, learned_parameters, **kw):
            r = orig_step(self, i, molecule, learned_parameters, **kw)
            captured[i + 1 + self.step_offset * 0] = (tonp_(self._active_states + 1).copy(), tonp_(torch.view_as_real(self._coeffs_complex())).copy())
            return r

        def eager_hop(self):
            real = torch.rand
            torch.rand = lambda n, **k: torch.full((n,), 1e-6, **k)
            try:
                return orig_hop(self)
            finally:
                torch.rand = real

        NonadiabaticDynamicsBase._do_integrator_step = rec_step
        if case["draw"] == "eager":
            SurfaceHoppingDynamics._attempt_hop = eager_hop
        try:
            out = {"molid": list(range(case["nmol"])), "prefix": os.path.join(wd, "f"), "print every": 0, "xyz": 0, "checkpoint every": 0,
                   "h5": {"data": case["data"], "coordinates": 0, "velocities": 0, "forces": 0, "nonadiabatic": case["na"]}}
            try:
                with silence():
                    mol = Molecule(Constants(), s, xyz, sp)
                    md = SurfaceHoppingDynamics(seqm_parameters=s, Temp=1000.0, timestep=0.4, output=out, initial_state=case["nstates"])
                    md.run(mol, steps=case["steps"], seed=case["seed"])
            except Exception as e:
                if "converge" in str(e).lower():
                    return Outcome.inconclusive("fssh_run_not_converged", labels)
                return Outcome.fail(f"fssh_run_raises:{type(e).__name__}", f"{type(e).__name__}: {str(e)[:200]}", labels, True)
            want = [j for j in range(1, case["steps"] + 1) if j % case["na"] == 0]
            changed_on_written = False
            for m in range(case["nmol"]):
                with h5py.File(os.path.join(wd, f"f.{m}.h5"), "r") as h5:
                    if "data" not in h5 or "nonadiabatic" not in h5["data"]:
                        return Outcome.fail("nonadiabatic_group_missing", f"molecule {m}: /data/nonadiabatic absent although the cadence is {case['na']}", labels, True)
                    g = h5["data/nonadiabatic"]
                    steps = [int(v) for v in g["steps"][...]]
                    act = g["active_surface"][...]
                    amp = g["electronic_amplitudes"][...]
                body = [j for j in steps if j != 0] if steps and steps[0] == 0 else steps
                if body != want or (steps and steps[0] == 0 and steps.count(0) > 1):
                    return Outcome.fail("nonadiabatic_steps_not_the_due_steps", f"molecule {m}: rows at steps {steps}, due {want} (an initial row 0 is tolerated)", labels, True)
                off = 1 if steps and steps[0] == 0 else 0
                for k, j in enumerate(want):
                    a_true, c_true = captured[j]
                    prev = captured[j - 1][0][m] if j - 1 in captured else case["nstates"]
                    if a_true[m] != prev:
                        changed_on_written = True
                    if int(act[k + off]) != int(a_true[m]):
                        return Outcome.fail("nonadiabatic_row_not_the_state_of_its_step", f"molecule {m}, row for step {j}: active_surface {int(act[k + off])}, the driver is on surface {int(a_true[m])} after that step (surface before the step: {int(prev)})", labels, True)
                    if not np.array_equal(amp[k + off], c_true[m][: amp.shape[1]]):
                        return Outcome.fail("nonadiabatic_row_not_the_state_of_its_step", f"molecule {m}, row for step {j}: electronic_amplitudes differ from the driver's coefficients after that step by {np.abs(amp[k + off] - c_true[m][: amp.shape[1]]).max():.3e}", labels, True)
            nchanges = sum(1 for j in range(1, case["steps"] + 1) for m in range(case["nmol"])
                           if captured[j][0][m] != (captured[j - 1][0][m] if j > 1 else case["nstates"]))
            labels.append("surface_changes:%s" % ("0" if nchanges == 0 else "1-2" if nchanges <= 2 else "3+"))
            labels.append("change_on_written_step:%s" % changed_on_written)
            return Outcome.ok(changed_on_written, labels, surface_changes=nchanges)
        finally:
            NonadiabaticDynamicsBase._do_integrator_step = orig_step
            SurfaceHoppingDynamics._attempt_hop = orig_hop
            shutil.rmtree(wd, ignore_errors=True)


def tonp_(t):
    return t.detach().cpu().numpy()


SUBCHECKS = [Lattice(), Generated(), FsshStream()]
