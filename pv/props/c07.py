"""C07 -- outputs are correctly differentiable in coordinates and Hamiltonian parameters (DESIGN 3/C07).

Sub-checks
 * reach      : as shipped. A caller-supplied parameter tensor (leaf, or non-leaf = output of a tiny "network") is accepted and
                the reverse-mode gradient of the energy arrives at the caller's leaf: not None, finite, equal to finite differences.
 * derivative : derivative correctness behind the first obstacle. The two `copy.deepcopy` calls that cut the caller's tensors off
                (recorded finding) are replaced, in the harness process only, by a structure copy that keeps tensor identity; then
                d output / d parameter for every learnable parameter name x scf_backward mode x output is compared with a 4-point
                finite difference at three step sizes.
 * geometry   : parameters that are a callable of the geometry: the force returned equals minus the TOTAL finite-difference
                derivative of the energy (parameter dependence included).
 * hessian    : scf_backward = 2, second derivatives by back-propagation: symmetric and equal to the central difference of forces.
"""
import copy as _copy

import numpy as np
from hypothesis import strategies as st

from .. import molecules as M
from .. import strategies as S
from ..core import Outcome, SubCheck
from ..seqm_api import Constants, Molecule, settings, silence, tonp, torch

PROPERTY = "C07"
LEVEL = "exploration"
RULE = ("Hypothesis draws method in {MNDO, AM1, PM3} x a small closed-shell template (distorted) x ONE learnable parameter name of the "
        "method's list x leaf / non-leaf tensor x scf_backward in {0,1,2} x solver x output in {Etot, Hf, gap, HOMO energy, weighted "
        "charges} (density-dependent outputs only with scf_backward 1/2) x a random direction in parameter space; oracle = 4-point "
        "finite difference of the same output at three step sizes (consistency-filtered). non-trivial = the analytic directional "
        "derivative exceeds 1e-6 in magnitude (the parameter acts on this molecule); distinct = case hash")
ASSUMPTIONS = ["derivative / geometry / hessian sub-checks run with the two copy.deepcopy calls of parameter packing replaced by an "
               "identity-preserving structure copy in the harness process (the recorded deepcopy finding is excluded by construction)",
               "relative tolerance 2e-5 + absolute 2e-7 on directional derivatives at scf_eps 1e-11 (FD noise measured <= 3e-8)",
               "parameters that do not act on the drawn molecule (zero derivative on both sides) count as trivial"]

TEMPLATES = ["H2O", "NH3", "CH4", "HF", "H2CO", "HCN", "CH3F", "H2S", "HCl", "CH3OH", "C2H4", "SiH4", "PH3"]
OUTPUTS0 = ["Etot", "Hf"]
OUTPUTS = ["Etot", "Hf", "gap", "homo", "charges"]


class _Shim:
    """identity-preserving replacement for the `copy` module inside seqm.basics / seqm.Molecule"""
    copy = staticmethod(_copy.copy)

    @staticmethod
    def deepcopy(x, memo=None):
        if isinstance(x, tuple):
            return tuple(_Shim.deepcopy(v) for v in x)
        if isinstance(x, dict):
            return dict(x)
        return x


def _shim(on):
    import sys

    import seqm.basics  # noqa: F401
    import seqm.Molecule  # noqa: F401

    # sys.modules, not attribute access: seqm/__init__ may rebind the name `Molecule` to the class
    sys.modules["seqm.basics"].copy = _Shim if on else _copy
    sys.modules["seqm.Molecule"].copy = _Shim if on else _copy


def _param_names(method):
    from seqm.basics import parameterlist

    return list(parameterlist[method])


def _geom(case):
    Z, X = M.geometry({"tpl": case["tpl"], "amp": case.get("amp", 0.05), "disp": case.get("disp")})
    return list(Z), np.asarray(X)


def _evaluate(case, Z, X, theta, want, grad_wrt=None, coords_grad=False, backward=None, eps=1e-11):
    """one Energy call with learned parameter(s) theta (dict name->tensor, or callable). Returns dict of scalar outputs (tensors)"""
    from seqm.basics import Energy

    names = case["names"]
    extra = {"learned": list(names), "scf_backward": case["backward"] if backward is None else backward, "eig": True}
    sp = settings(case["method"], eps, case["conv"], (False,), False, extra)
    species = torch.tensor([Z])
    xyz = torch.tensor(X[None], dtype=torch.float64)
    with silence():
        mol = Molecule(Constants(), sp, xyz, species, learned_parameters=theta)
        if coords_grad:
            mol.coordinates.requires_grad_(True)
        out = Energy(sp)(mol, learned_parameters=theta, all_terms=True)
    Hf, Etot, e_gap, e, charge, nc = out[0], out[1], out[6], out[7], out[9], out[10]
    res = {"Etot": Etot.sum(), "Hf": Hf.sum(), "notconverged": bool(torch.as_tensor(nc).any())}
    if "gap" in want:
        res["gap"] = e_gap.sum()
    if "homo" in want:
        res["homo"] = e[0, int(mol.nocc[0]) - 1]
    if "charges" in want:
        w = torch.tensor([((3 * i + 1) % 7 - 3) / 3.0 for i in range(len(Z))], dtype=torch.float64)
        res["charges"] = (charge.reshape(-1)[: len(Z)] * w).sum()
    res["mol"] = mol
    return res


def _table_values(case, Z, X):
    """table value of each requested parameter per real atom (what the caller would start a fit from)"""
    sp = settings(case["method"], 1e-6, case["conv"])
    with silence():
        mol = Molecule(Constants(), sp, torch.tensor(X[None], dtype=torch.float64), torch.tensor([Z]))
    return {n: mol.parameters[n].detach().clone() for n in case["names"]}


def _exponents_coincide(case, Z, X):
    """there is a pair of different heavy atoms A, B with zeta_s(A) == zeta_p(B) (MNDO C, N, O, F have zeta_s == zeta_p)"""
    c2 = dict(case)
    c2["names"] = ["zeta_s", "zeta_p"]
    _shim(False)
    try:
        t = _table_values(c2, Z, X)
    finally:
        _shim(True)
    zs, zp = t["zeta_s"].numpy(), t["zeta_p"].numpy()
    heavy = [i for i, z in enumerate(Z) if z > 1]
    return any(a != b and zs[a] == zp[b] for a in heavy for b in heavy)


def _direction(case, n):
    d = np.array([(((case["dseed"] + 1) * 7919 + 104729 * i) % 2001 - 1000) / 1000.0 for i in range(n)])
    if not np.any(d):
        d[0] = 1.0
    return d / np.linalg.norm(d)


def _fd(f, scale):
    """4-point central difference at three step sizes; returns (value, consistent)"""
    vals = []
    for h in (scale, scale / 2, scale / 4):
        vals.append((-f(2 * h) + 8 * f(h) - 8 * f(-h) + f(-2 * h)) / (12 * h))
    v = np.array(vals)
    spread = float(np.abs(v - v[-1]).max())
    return float(v[1]), spread


def _param_oracle(case, shim, labels):
    Z, X = _geom(case)
    name = case["names"][0]
    _shim(shim)
    try:
        base = _table_values(case, Z, X)
        t0 = base[name]
        n = t0.numel()
        d = torch.tensor(_direction(case, n))
        leaf = t0.clone().requires_grad_(True)
        theta = leaf if case["leaf"] else (leaf * 1.0 + 0.0 * leaf.sum())
        want = [case["output"]]
        try:
            r = _evaluate(case, Z, X, {name: theta}, want)
        except Exception as e:
            return Outcome.fail("supplied_parameter_tensor_rejected", f"{'leaf' if case['leaf'] else 'non-leaf'} tensor for {name} ({case['method']} {case['tpl']}): {type(e).__name__}: {str(e)[:160]}", labels, True)
        if r["notconverged"]:
            return Outcome.inconclusive("scf_not_converged", labels)
        if case["conv"][0] == 2:
            # Pulay can converge to a high-energy state that is flagged converged (C04's recorded finding; MNDO PH3 is its original
            # witness). There the Hellmann-Feynman derivative and a finite difference taken across Pulay runs need not agree (thorough
            # run, seed 1: d Etot/d U_ss ratio 1.027). Such cases belong to C04: the state is compared with the adaptive solver's.
            c1 = dict(case, conv=[1])
            with torch.no_grad():
                e_ref = float(_evaluate(c1, Z, X, {name: t0.clone()}, ["Etot"], backward=0)["Etot"])
            if abs(e_ref - float(r["Etot"])) > 1e-6:
                return Outcome.inconclusive("pulay_other_scf_state", labels)
        y = r[case["output"]]
        try:
            with silence():
                g = torch.autograd.grad(y, leaf, allow_unused=True)[0] if y.requires_grad else None
        except RuntimeError as e:
            if "did not converge" in str(e) or "not converge" in str(e):
                # the implicit adjoint says so itself (e.g. MNDO PH3 with Pulay, C04's recorded high-energy state): an honest failure signal
                return Outcome.inconclusive("scf_backward_not_converged", labels)
            return Outcome.fail("backward_pass_raises", f"d {case['output']} / d {name}: {type(e).__name__}: {str(e)[:160]} ({case['method']} {case['tpl']}, scf_backward={case['backward']})", labels, True)
        unreached = g is None
        if unreached:
            g = torch.zeros_like(leaf)      # legitimate when the output does not depend on the parameter (decided by the FD below)
        if not torch.isfinite(g).all():
            return Outcome.fail("gradient_not_finite", f"d {case['output']} / d {name} contains nan/inf ({case['method']} {case['tpl']})", labels, True)
        ad = float((g * d).sum())

        def f(h):
            with torch.no_grad():
                th = (t0 + h * d).clone()
            rr = _evaluate(case, Z, X, {name: th}, want, backward=0)
            return float(rr[case["output"]])

        scale = 1e-3 * max(1.0, float(t0.abs().max())) if name.startswith(("U_", "beta", "g_", "h_sp")) else 2e-4 * max(1.0, float(t0.abs().max()))
        fd, spread = _fd(f, scale)
    finally:
        _shim(False)
    nontrivial = abs(ad) > 1e-6 or abs(fd) > 1e-6
    labels.append("acts" if nontrivial else "parameter_does_not_act_on_molecule")
    tol = 2e-5 * max(abs(fd), abs(ad)) + 2e-7
    if spread > max(tol, 1e-6 * abs(fd)):
        return Outcome.inconclusive("fd_not_consistent", labels)
    err = abs(ad - fd)
    info = {"rel_err": err / max(abs(fd), 1e-6), "abs_err": err}
    if err > tol:
        ratio = ad / fd if abs(fd) > 1e-12 else float("inf")
        bucket = "parameter_gradient_wrong"
        if name in ("zeta_s", "zeta_p") and not unreached and _exponents_coincide(case, Z, X):
            bucket = "zeta_gradient_wrong_when_exponents_coincide"
        if unreached:
            return Outcome.fail("gradient_does_not_reach_caller_tensor", f"d {case['output']} / d {name} is None at the caller's leaf although the finite difference is {fd:.6e} ({case['method']} {case['tpl']}, scf_backward={case['backward']}, {'leaf' if case['leaf'] else 'non-leaf'})", labels, True, **info)
        fam = "g_ss/g_pp/g_p2/h_sp" if name in ("g_ss", "g_pp", "g_p2", "h_sp") else name
        if bucket != "parameter_gradient_wrong":
            pass
        elif case["backward"] == 1 and name in ("g_ss", "g_pp", "g_p2", "h_sp") and case["output"] in ("gap", "homo", "charges"):
            bucket = "implicit_adjoint_wrong_for_one_centre_two_electron_parameters"
        elif abs(ad * fd - 1.0) < 1e-3 and abs(ad - fd) > 1e-3:
            bucket = "gradient_is_reciprocal_of_true_derivative"
        return Outcome.fail(bucket, f"d {case['output']} / d {name} along a random direction: autograd {ad:.8e}, finite difference {fd:.8e} (ratio {ratio:.5f}); {case['method']} {case['tpl']} scf_backward={case['backward']} solver {case['conv']} {'leaf' if case['leaf'] else 'non-leaf'}",
                            labels, nontrivial, **info)
    return Outcome.ok(nontrivial, labels, **info)


@st.composite
def _case(draw, modes=(0, 1, 2)):
    method = draw(st.sampled_from(["MNDO", "AM1", "PM3"]))
    ok = set(M.names(method, ("neutral",), 6, 2))
    tpl = draw(st.sampled_from([t for t in TEMPLATES if t in ok]))
    n = len(M.ALL[tpl]["Z"])
    backward = draw(st.sampled_from(list(modes)))
    name = draw(st.sampled_from(_param_names(method)))
    return {"method": method, "tpl": tpl, "amp": 0.06, "disp": draw(st.lists(S.q3, min_size=3 * n, max_size=3 * n)), "names": [name],
            "leaf": draw(st.booleans()), "backward": backward, "conv": draw(st.sampled_from([[1], [2], [0, 0.2]])),
            "output": draw(st.sampled_from(OUTPUTS0 if backward == 0 else OUTPUTS)), "dseed": draw(st.integers(0, 50))}


def _labels(case):
    return ["method:" + case["method"], "param:" + case["names"][0], "backward:%d" % case["backward"], "output:" + case["output"],
            "leaf" if case["leaf"] else "non_leaf", "conv:%d" % case["conv"][0]]


class Reach(SubCheck):
    name = "reach"
    budget = {"quick": 64, "thorough": 1500}
    weight = 2.0

    def strategy(self, tier):
        return _case()

    def oracle(self, case):
        return _param_oracle(case, False, _labels(case))


class Derivative(SubCheck):
    name = "derivative"
    budget = {"quick": 320, "thorough": 12000}
    weight = 3.0

    def strategy(self, tier):
        return _case()

    def oracle(self, case):
        return _param_oracle(case, True, _labels(case) + ["excluded_by_construction:deepcopy"])


# ------------------------------------------------------------------------------------------------- parameters depend on geometry
class Geometry(SubCheck):
    """learned_parameters is a callable of (species, coordinates): the force must be minus the total derivative"""
    name = "geometry"
    budget = {"quick": 48, "thorough": 1500}
    weight = 3.0

    def strategy(self, tier):
        return _case(modes=(0, 1))

    def oracle(self, case):
        from seqm.ElectronicStructure import Electronic_Structure

        labels = _labels(case)
        Z, X = _geom(case)
        name = case["names"][0]
        _shim(True)
        try:
            t0 = _table_values(case, Z, X)[name]
            nat = len(Z)
            wv = torch.tensor(_direction(case, 3 * nat).reshape(nat, 3))

            def net(species, coordinates):
                # a smooth, geometry dependent correction of a few per cent, per real atom
                x = coordinates.reshape(-1, 3)[:nat]
                return {name: t0 * (1.0 + 0.03 * torch.tanh((x * wv).sum(dim=1)))}

            def energy(Xc):
                # the driver differentiates the heat of formation (basics.py Force.forward: L = Hf.sum()); with geometry dependent
                # parameters Hf and Etot no longer differ by a constant (the isolated-atom energies move), so the finite difference
                # is taken of Hf. (A first version differentiated Etot and raised a false alarm.)
                r = _evaluate(case, Z, Xc, net, ["Hf"], backward=0)
                return float(r["Hf"])

            extra = {"learned": [name], "scf_backward": case["backward"], "eig": True}
            sp = settings(case["method"], 1e-11, case["conv"], (False,), False, extra)
            with silence():
                mol = Molecule(Constants(), sp, torch.tensor(X[None], dtype=torch.float64), torch.tensor([Z]), learned_parameters=net)
                es = Electronic_Structure(sp)
                try:
                    es(mol, learned_parameters=net)
                except Exception as e:
                    if "not converge" in str(e):
                        # e.g. AM1 H2S with Pulay: the forward SCF lands on C04's recorded high-energy state (gap 0.17 eV) and the implicit
                        # adjoint reports its own divergence -- an honest failure signal, not a wrong derivative
                        return Outcome.inconclusive("scf_backward_not_converged", labels)
                    return Outcome.fail("callable_parameters_rejected", f"learned_parameters as a callable of the geometry ({name}, {case['method']} {case['tpl']}): {type(e).__name__}: {str(e)[:160]}", labels, True)
            if bool(torch.as_tensor(es.notconverged).any()):
                return Outcome.inconclusive("scf_not_converged", labels)
            if case["conv"][0] == 2:
                e_ref = float(_evaluate(dict(case, conv=[1]), Z, X, net, ["Etot"], backward=0)["Etot"])
                if abs(e_ref - float(mol.Etot[0])) > 1e-6:
                    return Outcome.inconclusive("pulay_other_scf_state", labels)       # C04's recorded finding, see _param_oracle
            F = tonp(mol.force[0])[:nat]
            dvec = _direction({"dseed": case["dseed"] + 17}, 3 * nat).reshape(nat, 3)
            ad = -float((F * dvec).sum())
            fd, spread = _fd(lambda h: energy(X + h * dvec), 1e-3)
        finally:
            _shim(False)
        tol = 2e-5 * max(abs(fd), abs(ad)) + 5e-7
        if spread > max(tol, 1e-6 * abs(fd)):
            return Outcome.inconclusive("fd_not_consistent", labels)
        # how much of the slope comes from the parameter's geometry dependence: same FD with the parameters frozen at X
        frozen = {name: net(None, torch.tensor(X))[name].detach()}
        _shim(True)
        try:
            fd_frozen, _ = _fd(lambda h: float(_evaluate(case, Z, X + h * dvec, frozen, ["Hf"], backward=0)["Hf"]), 1e-3)
        finally:
            _shim(False)
        share = abs(fd - fd_frozen)
        nontrivial = share > 1e-5
        labels.append("parameter_slope_share>1e-5" if nontrivial else "parameter_slope_negligible")
        err = abs(ad - fd)
        if err > tol:
            bucket = "force_ignores_parameter_geometry_dependence" if abs(ad - fd_frozen) < 0.2 * err else "force_wrong_with_geometry_dependent_parameters"
            return Outcome.fail(bucket, f"-F.d = {ad:.8e}, total dHf/dx.d (FD) = {fd:.8e}, with parameters frozen {fd_frozen:.8e}; {name} = table*(1+0.03 tanh(w.x)), {case['method']} {case['tpl']} scf_backward={case['backward']}", labels, nontrivial, abs_err=err)
        return Outcome.ok(nontrivial, labels, abs_err=err)


# --------------------------------------------------------------------------------------------------------------- second order
@st.composite
def _hcase(draw):
    method = draw(st.sampled_from(["MNDO", "AM1", "PM3"]))
    tpl = draw(st.sampled_from(["H2O", "HF", "NH3", "H2", "HCN", "H2CO"]))
    n = len(M.ALL[tpl]["Z"])
    return {"method": method, "tpl": tpl, "amp": 0.05, "disp": draw(st.lists(S.q3, min_size=3 * n, max_size=3 * n)), "conv": draw(st.sampled_from([[1], [2]])),
            "rows": draw(st.lists(st.integers(0, 3 * n - 1), min_size=2, max_size=3, unique=True))}


HESS_REL = 2e-5


class Hessian(SubCheck):
    name = "hessian"
    budget = {"quick": 40, "thorough": 1200}
    weight = 4.0

    def strategy(self, tier):
        return _hcase()

    def oracle(self, case):
        from seqm.basics import Energy

        labels = ["method:" + case["method"], "tpl:" + case["tpl"], "conv:%d" % case["conv"][0]]
        Z, X = _geom(case)
        nat = len(Z)

        def forces(Xc, backward, graph):
            sp = settings(case["method"], 1e-11, case["conv"], (False,), False, {"scf_backward": backward, "eig": True})
            with silence():
                mol = Molecule(Constants(), sp, torch.tensor(Xc[None], dtype=torch.float64), torch.tensor([Z]))
                mol.coordinates.requires_grad_(True)
                out = Energy(sp)(mol, all_terms=True)
            g = torch.autograd.grad(out[1].sum(), mol.coordinates, create_graph=graph)[0]
            return g, mol, bool(torch.as_tensor(out[10]).any())

        try:
            g, mol, nc = forces(X, 2, True)
        except Exception as e:
            return Outcome.fail("second_order_backprop_raises", f"{type(e).__name__}: {str(e)[:200]}", labels, True)
        if nc:
            return Outcome.inconclusive("scf_not_converged", labels)
        gf = g.reshape(-1)
        H = np.zeros((len(case["rows"]), 3 * nat))
        for k, i in enumerate(case["rows"]):
            with silence():
                H[k] = tonp(torch.autograd.grad(gf[i], mol.coordinates, retain_graph=True)[0]).reshape(-1)[: 3 * nat]
        worst, ratio = 0.0, 0.0
        for k, i in enumerate(case["rows"]):
            e = np.zeros(3 * nat)
            e[i] = 1.0
            e = e.reshape(nat, 3)

            def gi(h):
                gg, _, _ = forces(X + h * e, 0, False)
                return tonp(gg).reshape(-1)[: 3 * nat]

            rows_fd = []
            for h in (1e-3, 5e-4):
                rows_fd.append((-gi(2 * h) + 8 * gi(h) - 8 * gi(-h) + gi(-2 * h)) / (12 * h))
            fdrow = rows_fd[1]
            # the energy has tiny inherited kinks (DESIGN 1.5 "Finite differences"); a stencil that straddles one gives a slope ~ 1/h
            if float(np.abs(rows_fd[0] - rows_fd[1]).max()) > 0.25 * (HESS_REL * max(1.0, float(np.abs(fdrow).max())) + 2e-6):
                return Outcome.inconclusive("fd_not_consistent", labels)
            err = float(np.abs(H[k] - fdrow).max())
            worst = max(worst, err)
            ratio = max(ratio, err / (HESS_REL * max(1.0, float(np.abs(fdrow).max())) + 2e-6))
            if err > HESS_REL * max(1.0, float(np.abs(fdrow).max())) + 2e-6:
                j = int(np.abs(H[k] - fdrow).argmax())
                return Outcome.fail("hessian_row_differs_from_fd_of_gradient", f"d2E/dx_{i} dx_{j}: back-propagation {H[k][j]:.8e}, finite difference of the gradient {fdrow[j]:.8e} ({case['method']} {case['tpl']})", labels, True, hess_err=err)
        # symmetry among the drawn rows
        for a, i in enumerate(case["rows"]):
            for b, j in enumerate(case["rows"]):
                if a < b and abs(H[a][j] - H[b][i]) > 1e-7 * max(1.0, abs(H[a][j])):
                    return Outcome.fail("hessian_not_symmetric", f"H[{i},{j}] = {H[a][j]:.10e}, H[{j},{i}] = {H[b][i]:.10e} ({case['method']} {case['tpl']})", labels, True)
        return Outcome.ok(True, labels, hess_err=worst, hess_err_over_tol=ratio)


SUBCHECKS = [Reach(), Derivative(), Geometry(), Hessian()]
