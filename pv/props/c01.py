"""C01 -- reported forces are the negative gradient of the reported energy (DESIGN 3/C01).

Sub-checks
 * fd        : directional 4th-order finite difference of the RETURNED Etot (three step sizes, consistency filter)
               against -sum F.d, ground state; modes autodiff/analytical/semi-numerical; RHF neutral + ions, UHF radicals;
               layouts single / homogeneous batch / zero-padded mixed batch (FD moves one row only).
 * evaluators: the three force evaluators agree at the same geometry and solver (incl. SP2, loose eps).
 * excited   : same FD oracle on the active excited-state surface (CIS / RPA, analytical gradient and scf_backward
               autodiff), root required to be isolated.
 * padding   : inside every batch case: force on padding atoms is exactly zero.
"""
import numpy as np
from hypothesis import strategies as st

from .. import fd as FD
from .. import molecules as M
from .. import strategies as S
from ..core import Outcome, SubCheck
from ..seqm_api import notconv, pad_batch, run_sp, tonp

PROPERTY = "C01"
LEVEL = "exploration"
RULE = ("Hypothesis draws template (all elements of each sp table) + displacement + orientation (30% axis-aligned) x "
        "method {MNDO,AM1,PM3,PM6_SP} x force mode x solver x spin/charge class x batch layout x unit displacement field; "
        "oracle: 4-point FD of the returned energy at h=1e-3,5e-4,2.5e-4 vs -F.d (consistent discrepancy = violation), "
        "pairwise evaluator agreement, exact zero padding force. non-trivial = all stencil SCFs converged and |F.d| > 1e-3 "
        "eV/A (fd/excited) or converged with max|F| > 1e-3 (evaluators); distinct = distinct case hash")
ASSUMPTIONS = ["FD tolerance 2e-5 eV/A for autodiff (measured median 1.4e-9, max 2e-8 on the unchanged tree) and 2e-4 for the "
               "analytical / semi-numerical evaluators whose overlap derivatives are themselves finite differences",
               "stencils that straddle one of the energy surface's tiny inherited discontinuities are re-centred, then "
               "counted inconclusive:nonsmooth",
               "SP2 cases are checked by evaluator agreement only (SP2's ~20*tol energy floor makes FD meaningless)"]

MODES = {"autodiff": None, "analytical": [True], "seminum": [True, "numerical"]}


def _bucket(kind, case, Z, x, extra=""):
    """root cause signature. No special case for the C02 frame singularity (bond along +-x): measured on water, the force
    inside the 4.5e-4 rad cone IS the exact derivative of the frozen-frame energy the code returns there (-F.d = FD to 1e-8
    for stencils inside the cone), and all three evaluators share the frozen frame. The defect is an invariance /
    continuity defect and is C02's to report; if anything fails here in that orientation it is a violation of its own."""
    allZ = list(Z) + [z for m in case.get("mates", []) for z in M.ALL[m["tpl"]]["Z"]]
    hp = ""
    if kind == "fd_vs_force" and case.get("mode") == "analytical" and _hpp_clamped(case["mol"]["method"], allZ):
        hp = ":hpp_clamped"
    return f"{kind}:{case['mol']['method']}:{case.get('mode', '')}{extra}{hp}"


def _rows(case):
    """build batch rows: row 0 = molecule under test (oriented), others = mates. returns list of (Z, xyz, charge, mult)"""
    Z, x = M.geometry(case["mol"])
    if case.get("motion"):
        x, _, _ = S.apply_motion(case["motion"], x)
    m = M.ALL[case["mol"]["tpl"]]
    rows = [(Z, x, m["charge"], m["mult"])]
    for mc in case.get("mates", []):
        z2, x2 = M.geometry(mc)
        m2 = M.ALL[mc["tpl"]]
        rows.append((z2, x2, m2["charge"], m2["mult"]))
    return rows


def _run_rows(case, rows, x0_override=None, extra=None, do_force=True):
    rows = list(rows)
    if x0_override is not None:
        rows[0] = (rows[0][0], x0_override, rows[0][2], rows[0][3])
    Sx, X = pad_batch([(r[0], r[1]) for r in rows], width=max(len(r[0]) for r in rows) + case.get("padw", 0))
    uhf = any(r[3] != 1 for r in rows) or case.get("uhf", False)
    ex = {}
    if MODES[case.get("mode", "autodiff")] is not None:
        ex["analytical_gradient"] = list(MODES[case["mode"]])
    if extra:
        ex.update(extra)
    sol = case["solver"]
    return run_sp(Sx, X, method=case["mol"]["method"], eps=sol["eps"], conv=sol["conv"], sp2=sol["sp2"],
                  charges=np.array([r[2] for r in rows]), mult=np.array([r[3] for r in rows]), uhf=uhf, extra=ex,
                  es_kwargs=None if do_force else {"do_force": False})


@st.composite
def _mol_with_layout(draw, kinds, max_atoms=7):
    method = draw(st.sampled_from(M.METHODS_SP))
    kind = draw(st.sampled_from(kinds))
    mol = draw(S.molecule_case(method=method, kinds=(kind,), max_atoms=max_atoms, min_atoms=2))
    if kind == "radical" and mol.get("stretch") and mol["stretch"][2] > 1.1:
        # stretched open shells have several UHF solutions (measured: MNDO NO at 1.4 x r_e has two stationary
        # solutions 0.78 eV apart); the generator stays in the single-solution regime, fd.branch_switch is the net
        mol["stretch"][2] = 1.1
    case = {"mol": mol}
    n = len(M.ALL[mol["tpl"]]["Z"])
    if draw(st.integers(0, 9)) < 3:
        mo = draw(S.rigid_motion(n, allow_identity=False, translate=False))
        if mo.get("axis") in ("+x", "-x"):
            # Excluded by construction (and counted through the label below): the recorded C02 defect freezes the local
            # frame inside a 4.5e-4 rad cone around +-x, so the returned energy surface is discontinuous at the cone
            # boundary; a 4e-3 A stencil centred on or near such a bond straddles it. Measured: PM6_SP NO+ tilted 1e-6 rad
            # off -x gave an FD residual of 4.2e-6 eV/A against the 2e-5 tolerance -- the known defect leaking into this
            # property's margin. The same orientation classes are generated on the y axis instead; C02 owns the x axis.
            mo["remapped_from"] = mo["axis"]
            mo["axis"] = "+y" if mo["axis"] == "+x" else "-y"
        case["motion"] = mo
    layout = draw(st.sampled_from(["single", "single", "homog", "padded"]))
    if layout == "homog":
        mates = []
        for _ in range(draw(st.integers(1, 2))):
            mm = dict(mol)
            mm["amp"] = 0.05
            mm["disp"] = draw(st.lists(S.q3, min_size=3 * n, max_size=3 * n))
            mates.append(mm)
        case["mates"] = mates
    elif layout == "padded":
        k2 = "radical" if kind == "radical" else draw(st.sampled_from(["neutral", "ion"]))
        case["mates"] = [draw(S.molecule_case(method=method, kinds=(k2,), max_atoms=max_atoms, min_atoms=1, stretch=False))]
        case["padw"] = draw(st.integers(0, 2))
    case["layout"] = layout
    return case


@st.composite
def _fd_case(draw):
    case = draw(_mol_with_layout(("neutral", "neutral", "ion", "radical")))
    n = len(M.ALL[case["mol"]["tpl"]]["Z"])
    case["mode"] = draw(st.sampled_from(["autodiff", "analytical", "seminum"]))
    sol = draw(S.solver(allow_sp2=False, eps_exp=(10, 11)))
    rad = M.ALL[case["mol"]["tpl"]]["mult"] != 1 or any(M.ALL[m["tpl"]]["mult"] != 1 for m in case.get("mates", []))
    if rad and sol["conv"][0] == 2:
        sol["conv"] = [1]  # Pulay does not support UHF (documented); C18 covers the rejection
    if M.ALL[case["mol"]["tpl"]]["mult"] == 1 and not rad and draw(st.integers(0, 7)) == 0:
        case["uhf"] = True  # unrestricted singlet
        if sol["conv"][0] == 2:
            sol["conv"] = [1]
    case["solver"] = sol
    case["dirs"] = [draw(st.lists(S.q3, min_size=3 * n, max_size=3 * n)) for _ in range(2)]
    return case


def _labels(case, Z):
    lab = S.mol_labels(case["mol"], Z) + ["mode:" + case.get("mode", ""), "layout:" + case.get("layout", "single")]
    lab += S.solver_labels(case["solver"])
    if case.get("uhf"):
        lab.append("uhf_singlet")
    if case.get("motion"):
        lab.append("motion:" + case["motion"]["kind"])
        if case["motion"].get("remapped_from"):
            lab.append("excluded_by_construction:xaxis_cone_neighbourhood")
    return lab


def _padding_force_violation(r, rows):
    F = tonp(r.mol.force)
    for b, row in enumerate(rows):
        pad = F[b, len(row[0]):]
        if pad.size and np.any(pad != 0.0):
            return f"padding force of row {b} not exactly zero: max {np.abs(pad).max():.3e}"
    return None


class FDCheck(SubCheck):
    name = "fd"
    budget = {"quick": 420, "thorough": 9000}
    weight = 5.0
    excited = False

    def strategy(self, tier):
        return _fd_case()

    def _extra(self, case):
        return None

    def _root_ok(self, r):
        return True

    def oracle(self, case):
        rows = _rows(case)
        Z, x0 = rows[0][0], rows[0][1]
        n = len(Z)
        labels = _labels(case, Z)
        tol = 2e-5 if case["mode"] == "autodiff" else 2e-4
        if self.excited and max(Z) > 10:
            tol = max(tol, 2e-4)
        if self.excited:
            # excited-state forces go through iterative response solves (analytical z-vector, implicit SCF adjoint for
            # scf_backward=1): accuracy is set by their tolerances, not by autodiff exactness. Largest deviation measured on
            # the unchanged tree 1.9e-5 (PM3 NF3, CIS S3, scf_backward=1); bound 2e-4 keeps a 10x margin and is 30x below
            # the smallest real evaluator defect seen (6e-3).
            tol = max(tol, 2e-4, 100.0 * case["exc"].get("tol", 1e-9))
            labels.append("exc_tol:%g" % case["exc"].get("tol", 1e-9))
        worst = 0.0
        nontrivial = False
        batch_checked = False
        bva = 0.0
        for d in case["dirs"]:
            d = np.array(d, dtype=float).reshape(n, 3)
            d = d - d.mean(axis=0)  # remove net translation (energy is exactly invariant; keeps |F.d| meaningful)
            nd = np.linalg.norm(d)
            if nd < 1e-6:
                continue
            d = d / nd
            verdict = None
            for recentre in range(3):
                xb = x0 + recentre * 3.1e-3 * d
                if M.mindist(xb) < 0.6:
                    break
                try:
                    r = _run_rows(case, rows, xb, extra=self._extra(case))
                except Exception as e:
                    if "A-B matrix has negative eigenvalues" in str(e):
                        # RPA is undefined for an unstable reference (A-B not positive definite); the code says so loudly.
                        # Reached by strongly distorted batch members; C16 owns the stability clause.
                        return Outcome.inconclusive("rpa_unstable_reference", labels)
                    return Outcome.fail(_bucket("exception", case, Z, xb), f"{type(e).__name__}: {e}", labels)
                if notconv(r).any():
                    return Outcome.inconclusive("scf_not_converged", labels)
                if not self._root_ok(r):
                    return Outcome.inconclusive("excited_root_not_isolated", labels)
                msg = _padding_force_violation(r, rows)
                if msg:
                    return Outcome.fail(f"padding_force:{case['mol']['method']}:{case['mode']}", msg, labels)
                if recentre == 0 and len(rows) > 1 and not batch_checked:
                    # the force must be the gradient in EVERY layout: a member's force inside the batch equals the force of
                    # the same member computed alone (whose FD agreement is what the single-layout cases establish).
                    # Measured on the unchanged tree for adaptive/fixed mixing: <= 1e-12; Pulay's batch-global DIIS restart
                    # is C05's subject and is skipped here.
                    batch_checked = True
                    if case["solver"]["conv"][0] != 2:
                        for bi, rw in enumerate(rows):
                            if bi == 0:
                                rw = (rw[0], xb, rw[2], rw[3])
                            ra = _run_rows(case, [rw], extra=self._extra(case))
                            if notconv(ra).any():
                                continue
                            Fa = tonp(ra.mol.force[0])[: len(rw[0])]
                            Fb = tonp(r.mol.force[bi])[: len(rw[0])]
                            dd = float(np.abs(Fa - Fb).max())
                            # measured floor on the unchanged tree (fixed/adaptive mixing): <= 1.2e-10 for ground-state forces
                            # (all layouts, RHF/UHF), <= 2.7e-10 for analytical / back-propagated excited-state forces at
                            # every excited-state tolerance. 2e-8 is ~75x above that floor.
                            btol = 2e-8
                            if dd > btol:
                                return Outcome.fail(_bucket("batch_member_force_differs_from_alone", case, Z, xb),
                                                    f"member {bi} of {len(rows)}: max |F_in_batch - F_alone| = {dd:.3e} > {btol:.1e}", labels, True, batch_vs_alone=dd)
                            labels.append("batch_vs_alone_compared")
                            bva = max(bva, dd)
                F = tonp(r.mol.force[0])[:n]
                if not np.isfinite(F).all():
                    return Outcome.fail(_bucket("nan_force", case, Z, xb), "non-finite force with converged SCF", labels)
                slope = -float((F * d).sum())
                E0 = float(r.mol.Etot[0])

                def energy(s, xb=xb):
                    rr = _run_rows(case, rows, xb + s * d, extra=self._extra(case), do_force=False)
                    if notconv(rr).any():
                        return None
                    return float(rr.mol.Etot[0])

                try:
                    fdv = FD.directional(energy)
                except Exception as e:
                    return Outcome.fail(_bucket("exception", case, Z, xb), f"{type(e).__name__}: {e}", labels)
                if fdv is None:
                    return Outcome.inconclusive("scf_not_converged_in_stencil", labels)
                if FD.branch_switch(fdv, E0):
                    # centre and stencil converged to different SCF solutions (energies only; see fd.branch_switch)
                    return Outcome.inconclusive("scf_branch_switch", labels)
                verdict, err = FD.judge(fdv, slope, tol)
                if verdict != "nonsmooth":
                    break
            if verdict is None:
                continue
            if verdict == "nonsmooth":
                return Outcome.inconclusive("nonsmooth", labels, err=err)
            if verdict == "fail":
                return Outcome.fail(_bucket("fd_vs_force", case, Z, xb), f"dE/ds FD={[fdv[h] for h in sorted(k for k in fdv if not isinstance(k, str))]} vs -F.d={slope!r} (consistent discrepancy {err:.3e} > {tol:.0e})",
                                    labels, True, err=err)
            worst = max(worst, err)
            if abs(slope) > 1e-3:
                nontrivial = True
        return Outcome.ok(nontrivial, labels, **{"fd_err_" + case["mode"]: worst, "batch_vs_alone": bva})

    def simplify(self, case):
        if case.get("mates"):
            c = dict(case)
            c.pop("mates")
            c.pop("padw", None)
            c["layout"] = "single"
            yield c
        if case.get("motion"):
            c = dict(case)
            c.pop("motion")
            yield c
        if case["mol"].get("amp", 0):
            m = dict(case["mol"], amp=0.0)
            m.pop("disp", None)
            yield dict(case, mol=m)
        if case["mol"].get("stretch"):
            m = dict(case["mol"])
            m.pop("stretch")
            yield dict(case, mol=m)
        if len(case.get("dirs", [])) > 1:
            for d in case["dirs"]:
                yield dict(case, dirs=[d])
        if case["solver"]["conv"] != [1]:
            yield dict(case, solver=dict(case["solver"], conv=[1]))


@st.composite
def _ev_case(draw):
    case = draw(_mol_with_layout(("neutral", "neutral", "ion", "radical")))
    sol = draw(S.solver(allow_sp2=True, eps_exp=(5, 9)))
    rad = M.ALL[case["mol"]["tpl"]]["mult"] != 1 or any(M.ALL[m["tpl"]]["mult"] != 1 for m in case.get("mates", []))
    if rad:
        sol["sp2"] = [False]
        if sol["conv"][0] == 2:
            sol["conv"] = [1]
    case["solver"] = sol
    case["mode"] = "all"
    return case


class Evaluators(SubCheck):
    name = "evaluators"
    budget = {"quick": 700, "thorough": 15000}
    weight = 2.0

    def strategy(self, tier):
        return _ev_case()

    def oracle(self, case):
        rows = _rows(case)
        Z, x0 = rows[0][0], rows[0][1]
        labels = _labels(case, Z)
        allZ = [z for r in rows for z in r[0]]
        tol = 2e-4 if max(allZ) > 10 else 1e-5
        res = {}
        for mode in MODES:
            c = dict(case, mode=mode)
            try:
                r = _run_rows(c, rows)
            except Exception as e:
                return Outcome.fail(_bucket("exception", c, Z, x0), f"{mode}: {type(e).__name__}: {e}", labels)
            if notconv(r).any():
                return Outcome.inconclusive("scf_not_converged", labels)
            msg = _padding_force_violation(r, rows)
            if msg:
                return Outcome.fail(f"padding_force:{case['mol']['method']}:{mode}", msg, labels)
            res[mode] = (tonp(r.mol.force), tonp(r.mol.Etot))
        worst = 0.0
        for a, b in (("autodiff", "analytical"), ("autodiff", "seminum"), ("analytical", "seminum")):
            dE = float(np.abs(res[a][1] - res[b][1]).max())
            if dE > 1e-9:
                return Outcome.fail(f"evaluator_energy:{case['mol']['method']}:{a}-{b}", f"Etot differs between force modes by {dE:.3e}", labels)
            d = float(np.abs(res[a][0] - res[b][0]).max())
            worst = max(worst, d)
            if d > tol:
                hp = _hpp_clamped(case["mol"]["method"], allZ)
                return Outcome.fail(f"evaluators:{case['mol']['method']}:{a}-{b}" + (":hpp_clamped" if hp else ""),
                                    f"max |F_{a} - F_{b}| = {d:.3e} > {tol:.0e}", labels, True, diff=d)
        fmax = float(np.abs(res["autodiff"][0]).max())
        return Outcome.ok(fmax > 1e-3, labels, evaluator_diff=worst)

    simplify = FDCheck.simplify


_HPP = {}


def _hpp_clamped(method, Zs):
    """does the molecule contain an element whose hpp=(g_pp-g_p2)/2 is below the 0.1 eV clamp of the energy integrals?"""
    if method not in _HPP:
        import csv
        import os

        from .. import REPO

        tab = {}
        path = os.path.join(REPO, "seqm", "params", f"parameters_{method}_MOPAC.csv")
        with open(path) as fh:
            rd = csv.reader(fh)
            hdr = [h.strip() for h in next(rd)]
            for row in rd:
                try:
                    z = int(float(row[0]))
                    gpp = float(row[hdr.index("g_pp")])
                    gp2 = float(row[hdr.index("g_p2")])
                    tab[z] = 0.5 * (gpp - gp2) < 0.1
                except Exception:
                    continue
        _HPP[method] = tab
    return any(_HPP[method].get(z, False) for z in Zs if z > 2)


@st.composite
def _exc_case(draw):
    method = draw(st.sampled_from(M.METHODS_SP))
    # non-linear templates only: diatomics stay linear under every displacement and keep doubly degenerate excited
    # states, for which "the force of S_k" is ill defined (the first version drew them and 29-62 % of the cases ended
    # as inconclusive:excited_root_not_isolated -- a generator that rejects that much tests little)
    pool = [t for t in M.names(method, ("neutral",), 6, 3) if M.n_ov(t) >= 4 and not M.is_linear(t)]
    tpl = draw(st.sampled_from(pool))
    n = len(M.ALL[tpl]["Z"])
    mol = {"method": method, "tpl": tpl, "amp": 0.08, "disp": draw(st.lists(S.q3, min_size=3 * n, max_size=3 * n))}
    case = {"mol": mol, "layout": "single"}
    em = draw(st.sampled_from(["cis", "rpa"]))
    state = draw(st.integers(1, 3))
    state = min(state, max(1, M.n_ov(tpl) // 2 - 1))
    case["exc"] = {"method": em, "state": state, "n_states": min(state + 2, M.n_ov(tpl) // 2)}
    case["mode"] = draw(st.sampled_from(["analytical", "analytical", "autodiff"]))
    case["backward"] = draw(st.sampled_from([1, 2])) if case["mode"] == "autodiff" else 0
    if draw(st.integers(0, 1)) == 0:
        # homogeneous batch whose members differ in difficulty: iterative solvers that treat the batch as one unit
        # (response equations of the analytical gradient, Davidson) then converge at different speeds per member
        mates = []
        for _ in range(draw(st.integers(2, 3))):
            mm = dict(mol)
            # amplitude = actual largest displacement component (the vector is scaled to unit max-norm): members range
            # from nearly undistorted to strongly distorted. Measured: with members at 0.02 / 0.08 / 0.15 A + a stretched
            # bond the clean tree agrees alone-vs-batch to 1.9e-10 at every excited-state tolerance, while a batch-global
            # early exit of the response solver gives 1e-5 (tol 1e-9) .. 4e-4 (tol 1e-6).
            mm["amp"] = draw(st.sampled_from([0.02, 0.15, 0.25] if em == "cis" else [0.02, 0.1, 0.15]))
            dv = draw(st.lists(S.q3, min_size=3 * n, max_size=3 * n))
            mx = max(1e-3, max(abs(v) for v in dv))
            mm["disp"] = [round(v / mx, 3) for v in dv]
            if em == "cis" and draw(st.integers(0, 2)) > 0:
                mm["stretch"] = [0, 1, draw(st.sampled_from([0.9, 1.15, 1.25]))]
            mates.append(mm)
        case["mates"] = mates
        case["layout"] = "homog"
    case["solver"] = {"conv": [1], "sp2": [False], "eps": 1e-11}
    # excited-state tolerance: the default 1e-6 is what users run (and where solver-coupling defects are largest)
    case["exc"]["tol"] = draw(st.sampled_from([1e-6, 1e-7, 1e-9, 1e-9]))
    case["dirs"] = [draw(st.lists(S.q3, min_size=3 * n, max_size=3 * n))]
    return case


class Excited(FDCheck):
    name = "excited"
    budget = {"quick": 200, "thorough": 4000}
    weight = 8.0
    excited = True

    def strategy(self, tier):
        return _exc_case()

    def _extra(self, case):
        e = case["exc"]
        ex = {"excited_states": {"method": e["method"], "n_states": e["n_states"], "tolerance": e.get("tol", 1e-9)},
              "active_state": e["state"], "scf_backward": case.get("backward", 0)}
        if case["mode"] == "autodiff":
            ex["scf_backward_eps"] = 1e-11
        return ex

    def _root_ok(self, r):
        e = tonp(r.mol.cis_energies[0])
        k = r.mol.active_state - 1 if isinstance(r.mol.active_state, int) else 0
        others = np.delete(e, k)
        return others.size == 0 or float(np.abs(others - e[k]).min()) > 0.05


SUBCHECKS = [FDCheck(), Evaluators(), Excited()]
