"""C09 -- XL-BOMD propagation is consistent with SCF, fixed-point preserving and stable (DESIGN 3/C09).

 recurrence  : the auxiliary-density recurrence ACTUALLY EXECUTED by the real XL_BOMD / KSA_XL_BOMD objects (their _propagate_P and
               the circular history indexing of one_step, emulated step by step; restart phases emulated the way run_from_checkpoint
               restores them) vs an independently coded dissipative Verlet scheme with the published Niklasson-2009 table, for every
               k in {3..9} and every buffer phase (exhaustive) plus generated random histories; a stationary system keeps its auxiliary
               density unchanged at every phase (fixed point)
 stability   : the linear map the code executes is read off the object numerically (unit probes through _propagate_P); its
               characteristic polynomial under the linear response model D - P* = (1-gamma)(P - P*) is solved with mpmath at 40 digits:
               max |lambda| <= 1 over gamma in (0, 1], strictly inside for gamma >= 0.2
 consistency : Electronic_Structure(dm_prop='XL-BOMD') with the converged ground-state density as auxiliary density returns the SCF
               energy and forces
 dynamics    : SCF-driven XL-BOMD vs BOMD at dt and dt/2: |x_XL - x_BO| shrinks ~4x, shadow-energy fluctuation ~4x, no drift
"""
import math
import os
import shutil
import tempfile
from types import SimpleNamespace

import h5py
import numpy as np
from hypothesis import strategies as st

from .. import molecules as M
from .. import strategies as S
from ..core import Outcome, SubCheck
from ..seqm_api import Constants, Electronic_Structure, Molecule, notconv, run_sp, settings, silence, tonp, torch

PROPERTY = "C09"
LEVEL = "exploration"
RULE = ("recurrence: all (k, restart phase) in {3..9} x {0..k} enumerated with three synthetic histories each, plus Hypothesis-drawn random "
        "histories, response strengths and restart points; stability: k in {3..9} x gamma on a 400-point grid in (0,1]; consistency: "
        "templates x methods x k; dynamics: water / formaldehyde, k drawn, dt and dt/2 over 10 fs. non-trivial = history slots pairwise "
        "different (recurrence), every case (others); distinct = case hash")
ASSUMPTIONS = ["published table transcribed in the harness from Niklasson et al., J. Chem. Phys. 130, 214109 (2009), Table I",
               "stability margins: max|lambda| - 1 <= 1e-12 for all gamma, <= -1e-7 for gamma >= 0.2 (measured at design time: -2e-5 .. -0.35 for k=3, +5e-18 .. -4e-2 for k=6)",
               "'forever' = 3(k+1) steps of an exact algebraic identity, which covers every buffer phase"]

# kappa, alpha, c0..ck -- typed from the paper, independently of the repository's table
NIKLASSON = {
    3: (1.69, 150e-3, [-2, 3, 0, -1]),
    4: (1.75, 57e-3, [-3, 6, -2, -2, 1]),
    5: (1.82, 18e-3, [-6, 14, -8, -3, 4, -1]),
    6: (1.84, 5.5e-3, [-14, 36, -27, -2, 12, -6, 1]),
    7: (1.86, 1.6e-3, [-36, 99, -88, 11, 32, -25, 8, -1]),
    8: (1.88, 0.44e-3, [-99, 286, -286, 78, 78, -90, 42, -10, 1]),
    9: (1.89, 0.12e-3, [-286, 858, -936, 364, 168, -300, 184, -63, 12, -1]),
}
DELTA_SCALE = 0.95   # the code scales the delta function ("use eq with c if stability problems occur"); part of the executed scheme


def _xl(k, cls="XL_BOMD"):
    import seqm.MolecularDynamics as MDmod

    s = {"method": "AM1", "scf_eps": 1e-8, "scf_converger": [1], "elements": [0, 1, 8]}
    out = {"molid": [], "prefix": "c09", "print every": 0, "xyz": 0, "checkpoint every": 0, "h5": {}}
    params = {"k": k}
    if cls == "KSA_XL_BOMD":
        params.update({"max_rank": 2, "err_threshold": 0.0, "T_el": 1500})
    with silence():
        md = getattr(MDmod, cls)(xl_bomd_params=params, seqm_parameters=s, Temp=300.0, timestep=0.4, output=out)
    return md


def _reference_step(k, hist, D, scale=DELTA_SCALE):
    """hist[0] = P(n), hist[1] = P(n-1), ... ; returns P(n+1) of the published scheme. XL_BOMD executes it with the delta function
    scaled by 0.95; KSA_XL_BOMD replaces (D - P) by the kernel-corrected update molecule.dP2dt2 without scaling -- the harness
    supplies dP2dt2 = D - P (exact kernel), so the same scheme with scale 1 is the reference there."""
    kappa, alpha, c = NIKLASSON[k]
    new = 2 * hist[0] - hist[1] + scale * kappa * (D - hist[0])
    for j in range(k + 1):
        new = new + alpha * c[j] * hist[j]
    return new


def _emulate(md, k, hist0, Ds, start_step=0, restart_at=None, excited=False):
    """run the code's own propagation the way one_step / run_from_checkpoint index the circular buffer; returns list of P(n+1)"""
    m = k + 1
    # fresh start of the code: every slot holds the same initial density (initialize() fills Pt with copies); for synthetic
    # histories the buffer is laid out as the code would have produced it after `start_step` steps: slot (m-1-cindx) was
    # written last. Slot holding age a (P(n-a)) at step s: newest written at index (m-1-((s-1)%m)).
    shape = (1, 1, 2, 2) if excited else (1, 2, 2)      # the transition-density history carries a state axis
    Pt = torch.zeros(m, *shape, dtype=torch.float64)
    s = start_step
    newest = (m - 1 - ((s - 1) % m)) % m
    for age in range(m):
        Pt[(newest + age) % m] = torch.tensor(hist0[age]).reshape(shape)
    P = Pt[newest].clone()
    out = []
    for i, D in enumerate(Ds):
        if restart_at is not None and i == restart_at:
            # checkpoint/resume: run_from_checkpoint restores P from the buffer with cindx = (step_done - 1) % m
            cindx = (s - 1) % m
            Pt = Pt.clone()
            P = Pt[(m - 1 - cindx)].clone()
        cindx = s % m
        Dt = torch.tensor(D).reshape(shape)
        if excited:
            # the same scheme drives the excited-state auxiliary variable (transition densities) of XL_BOMD on an excited surface
            P = md._propagate_excited_state(P, Pt, cindx, SimpleNamespace(transition_density_matrices=Dt, dxi2dt2=None))
        else:
            mol = SimpleNamespace(dm=Dt, dP2dt2=Dt - P)
            P = md._propagate_P(P, Pt, cindx, mol)
        Pt[(m - 1 - cindx)] = P
        out.append(tonp(P).reshape(2, 2).copy())
        s += 1
    return out


def _mat(vals):
    a = np.array(vals, dtype=float).reshape(2, 2)
    return 0.5 * (a + a.T)


class Recurrence(SubCheck):
    name = "recurrence"
    budget = {"quick": 1200, "thorough": 40000}
    shards = {"quick": 8, "thorough": 16}
    weight = 1.0

    def enumerate(self, tier):
        for k in range(3, 10):
            for phase in range(k + 1):
                for kind in ("stationary", "ramp", "alternating"):
                    for cls in ("XL_BOMD", "KSA_XL_BOMD", "XL_BOMD:excited"):
                        yield {"k": k, "phase": phase, "kind": kind, "cls": cls, "restart": None}
                yield {"k": k, "phase": phase, "kind": "ramp", "cls": "XL_BOMD", "restart": 1 + phase}

    def strategy(self, tier):
        @st.composite
        def gen(draw):
            k = draw(st.integers(3, 9))
            return {"k": k, "phase": draw(st.integers(0, 3 * k)), "kind": "random", "cls": draw(st.sampled_from(["XL_BOMD", "KSA_XL_BOMD", "XL_BOMD:excited"])),
                    "restart": draw(st.sampled_from([None, None] + list(range(1, k + 3)))), "seed": draw(st.integers(0, 10 ** 6)),
                    "gamma": draw(st.sampled_from([0.0, 0.1, 0.5, 1.0]))}
        return gen()

    def oracle(self, case):
        k, m = case["k"], case["k"] + 1
        labels = ["k:%d" % k, "kind:" + case["kind"], "cls:" + case["cls"], "restart:%s" % (case["restart"] is not None)]
        try:
            md = _xl(k, case["cls"].split(":")[0])
        except Exception as e:
            return Outcome.fail(f"exception_constructor:{type(e).__name__}", f"{type(e).__name__}: {str(e)[:200]}", labels)
        rng = np.random.default_rng(case.get("seed", 0))
        P0 = _mat([1.0, 0.3, 0.3, 0.7])
        nsteps = 3 * m
        if case["kind"] == "stationary":
            hist0 = [P0.copy() for _ in range(m)]
            Ds = [P0.copy() for _ in range(nsteps)]
        elif case["kind"] == "ramp":
            hist0 = [P0 + 0.01 * (m - a) * _mat([1, -2, -2, 0.5]) for a in range(m)]
            Ds = [P0 + 0.01 * (m + i + 1.5) * _mat([1, -2, -2, 0.5]) for i in range(nsteps)]
        elif case["kind"] == "alternating":
            hist0 = [P0 + 0.02 * (-1) ** a * _mat([0.3, 1, 1, -1]) for a in range(m)]
            Ds = [P0 + 0.02 * (-1) ** i * _mat([0.5, -1, -1, 2]) for i in range(nsteps)]
        else:
            hist0 = [P0 + 0.05 * _mat(rng.normal(size=4)) for _ in range(m)]
            Ds = None
        nontrivial = case["kind"] != "stationary"
        # reference run (list based), generating D from the response model when requested
        ref, h = [], [x.copy() for x in hist0]
        dlist = []
        for i in range(nsteps):
            D = Ds[i] if Ds is not None else (P0 + (1.0 - case["gamma"]) * (h[0] - P0) + 0.01 * _mat(rng.normal(size=4)))
            dlist.append(D)
            new = _reference_step(k, h, D, scale=DELTA_SCALE if case["cls"].startswith("XL_BOMD") else 1.0)
            ref.append(new)
            h = [new] + h[:-1]
        try:
            got = _emulate(md, k, hist0, dlist, start_step=case["phase"], restart_at=case["restart"], excited=case["cls"].endswith(":excited"))
        except Exception as e:
            return Outcome.fail(f"exception:{type(e).__name__}", f"{type(e).__name__}: {str(e)[:200]}", labels, nontrivial)
        worst = 0.0
        for i in range(nsteps):
            d = float(np.abs(got[i] - ref[i]).max())
            worst = max(worst, d)
            scale = max(1.0, float(np.abs(ref[i]).max()))
            if d > 1e-11 * scale * (1 + i):
                what = "fixed_point_not_preserved" if case["kind"] == "stationary" else ("restart_changes_recurrence" if case["restart"] is not None and i >= case["restart"] else "executed_recurrence_differs_from_published")
                return Outcome.fail(f"{what}:k{k}", f"k={k}, buffer phase {case['phase']}{', restart before step %d' % case['restart'] if case['restart'] is not None else ''}: step {i}: "
                                    f"executed P(n+1) differs from the published dissipative Verlet scheme by {d:.3e}", labels, nontrivial, dev=d)
        return Outcome.ok(nontrivial, labels, dev=worst)


def _executed_coefficients(md, k):
    """read the linear map P(n+1) = aD D + sum_j w_j P(n-j) off the real object by unit probes (cindx = 0 layout)"""
    m = k + 1
    z = torch.zeros(1, 1, 1, dtype=torch.float64)

    def probe(D, hist):
        Pt = torch.zeros(m, 1, 1, 1, dtype=torch.float64)
        newest = (m - 1 - ((0 - 1) % m)) % m
        for age in range(m):
            Pt[(newest + age) % m] = hist[age]
        P = Pt[newest].clone()
        return float(md._propagate_P(P, Pt, 0, SimpleNamespace(dm=torch.tensor(D).reshape(1, 1, 1)))[0, 0, 0])

    aD = probe(1.0, [0.0] * m)
    w = [probe(0.0, [1.0 if a == j else 0.0 for a in range(m)]) for j in range(m)]
    return aD, w


class Stability(SubCheck):
    name = "stability"
    budget = {}
    shards = {"quick": 7, "thorough": 7}
    weight = 2.0

    def enumerate(self, tier):
        for k in range(3, 10):
            for cls in ("XL_BOMD",):
                yield {"k": k, "cls": cls, "ngrid": 400 if tier == "quick" else 2000}

    def oracle(self, case):
        import mpmath as mp

        mp.mp.dps = 40
        k = case["k"]
        labels = ["k:%d" % k]
        md = _xl(k, case["cls"])
        aD, w = _executed_coefficients(md, k)
        # fixed point: D = P = every slot equal  =>  aD + sum w = 1
        fp = abs(aD + sum(w) - 1.0)
        if fp > 1e-14:
            return Outcome.fail(f"fixed_point_defect:k{k}", f"k={k}: aD + sum_j w_j - 1 = {aD + sum(w) - 1.0:.3e}", labels, True)
        worst_all, worst_02 = -1.0, -1.0
        for ig in range(1, case["ngrid"] + 1):
            g = ig / case["ngrid"]
            # delta(n+1) = aD (1-g) delta(n) + sum_j w_j delta(n-j)
            coeffs = [mp.mpf(1)] + [-(mp.mpf(w[j]) + (mp.mpf(aD) * (1 - mp.mpf(g)) if j == 0 else 0)) for j in range(k + 1)]
            roots = mp.polyroots(coeffs, maxsteps=200, extraprec=200)
            r = max(abs(x) for x in roots)
            worst_all = max(worst_all, float(r - 1))
            if g >= 0.2:
                worst_02 = max(worst_02, float(r - 1))
        if worst_all > 1e-12:
            return Outcome.fail(f"unstable_recurrence:k{k}", f"k={k}: max |lambda| - 1 = {worst_all:.3e} over gamma in (0,1]", labels, True, margin=worst_all)
        if worst_02 > -1e-7:
            return Outcome.fail(f"marginal_stability:k{k}", f"k={k}: max |lambda| - 1 = {worst_02:.3e} for gamma >= 0.2 (no dissipation)", labels, True, margin=worst_02)
        return Outcome.ok(True, labels, fixed_point_defect=fp, margin_all=worst_all, margin_gamma_ge_02=worst_02)


@st.composite
def _cons_case(draw):
    method = draw(st.sampled_from(["AM1", "PM3", "MNDO"]))
    tpl = draw(st.sampled_from([t for t in M.names(method, ("neutral",), 5, 2) if M.n_orbitals(t) <= 16]))
    n = len(M.ALL[tpl]["Z"])
    return {"mol": {"method": method, "tpl": tpl, "amp": 0.08, "disp": draw(st.lists(S.q3, min_size=3 * n, max_size=3 * n))}, "k": draw(st.integers(3, 9)),
            "ksa": draw(st.booleans())}


class Consistency(SubCheck):
    name = "consistency"
    budget = {"quick": 200, "thorough": 5000}
    weight = 3.0

    def strategy(self, tier):
        return _cons_case()

    def oracle(self, case):
        Z, x = M.geometry(case["mol"])
        method = case["mol"]["method"]
        labels = ["method:" + method, "k:%d" % case["k"], "ksa:%s" % case["ksa"]]
        r = run_sp([Z], [x], method=method, eps=1e-11)
        if notconv(r)[0]:
            return Outcome.inconclusive("scf_not_converged", labels)
        params = {"k": case["k"]}
        if case["ksa"]:
            gap = float(r.mol.e_gap[0])
            params.update({"max_rank": 2, "err_threshold": 0.0, "T_el": 300})
            if gap / (2 * 8.617e-5 * 300) < 28:
                return Outcome.inconclusive("gap_too_small_for_integer_occupations", labels)
        s = settings(method, 1e-11, (1,), (False,))
        try:
            with silence():
                mol = Molecule(Constants(), s, torch.tensor(np.array([x])), torch.tensor(np.array([Z])))
                es = Electronic_Structure(s)
                es(mol, P0=r.mol.dm.clone(), dm_prop="XL-BOMD", xl_bomd_params=params)
        except Exception as e:
            return Outcome.fail(f"exception:{type(e).__name__}", f"{type(e).__name__}: {str(e)[:200]}", labels)
        dE = abs(float(mol.Etot[0]) - float(r.mol.Etot[0]))
        dF = float(np.abs(tonp(mol.force[0]) - tonp(r.mol.force[0])).max())
        if dE > 1e-8 or dF > 1e-6:
            return Outcome.fail("xl_energy_differs_from_scf_at_converged_density" + (":ksa" if case["ksa"] else ""), f"auxiliary density = converged SCF density: Etot differs by {dE:.3e} eV, forces by {dF:.3e} eV/A", labels, True, dE=dE, dF=dF)
        return Outcome.ok(True, labels, dE=dE, dF=dF)


@st.composite
def _dyn_case(draw):
    return {"tpl": draw(st.sampled_from(["H2O", "H2CO"])), "method": draw(st.sampled_from(["AM1", "PM3"])), "k": draw(st.integers(3, 9)), "seed": draw(st.integers(0, 100)),
            "ksa": draw(st.booleans())}


class Dynamics(SubCheck):
    name = "dynamics"
    budget = {"quick": 16, "thorough": 300}
    weight = 30.0

    def strategy(self, tier):
        return _dyn_case()

    def oracle(self, case):
        import seqm.MolecularDynamics as MDmod

        Z, x = M.geometry({"tpl": case["tpl"], "amp": 0.0})
        labels = ["tpl:" + case["tpl"], "k:%d" % case["k"], "ksa:%s" % case["ksa"]]
        wd = tempfile.mkdtemp(prefix="c09_", dir=os.getcwd())

        def run(engine, dt):
            s = settings(case["method"], 1e-9, (1,), (False,))
            steps = int(round(10.0 / dt))
            prefix = os.path.join(wd, "%s_%g" % (engine, dt))
            out = {"molid": [0], "prefix": prefix, "print every": 0, "xyz": 0, "checkpoint every": 0, "h5": {"data": 1, "coordinates": 1}}
            with silence():
                mol = Molecule(Constants(), s, torch.tensor(np.array([x])), torch.tensor(np.array([Z])))
                if engine == "bomd":
                    md = MDmod.Molecular_Dynamics_Basic(seqm_parameters=s, Temp=300.0, timestep=dt, output=out)
                elif case["ksa"]:
                    md = MDmod.KSA_XL_BOMD(xl_bomd_params={"k": case["k"], "max_rank": 2, "err_threshold": 0.0, "T_el": 1500}, seqm_parameters=s, Temp=300.0, timestep=dt, output=out)
                else:
                    md = MDmod.XL_BOMD(xl_bomd_params={"k": case["k"]}, seqm_parameters=s, Temp=300.0, timestep=dt, output=out)
                md.run(mol, steps=steps, remove_com=None, seed=case["seed"])
            with h5py.File(prefix + ".0.h5", "r") as f:
                return f["coordinates/values"][...], f["data/thermo/Ep"][...] + f["data/thermo/Ek"][...]

        try:
            res = {(e, dt): run(e, dt) for e in ("bomd", "xl") for dt in (0.4, 0.2)}
        except Exception as e:
            return Outcome.fail(f"exception:{type(e).__name__}", f"{type(e).__name__}: {str(e)[:200]}", labels)
        finally:
            shutil.rmtree(wd, ignore_errors=True)
        d1 = float(np.abs(res[("xl", 0.4)][0][-1] - res[("bomd", 0.4)][0][-1]).max())
        d2 = float(np.abs(res[("xl", 0.2)][0][-1] - res[("bomd", 0.2)][0][-1]).max())
        f1 = float(np.abs(res[("xl", 0.4)][1] - res[("xl", 0.4)][1][0]).max())
        f2 = float(np.abs(res[("xl", 0.2)][1] - res[("xl", 0.2)][1][0]).max())
        info = {"dx_ratio": d1 / max(d2, 1e-300), "fluct_ratio": f1 / max(f2, 1e-300), "dx_dt04": d1}
        if d1 > 5e-3:
            return Outcome.fail("xl_trajectory_far_from_born_oppenheimer", f"|x_XL - x_BO| = {d1:.3e} A after 10 fs at dt = 0.4 fs (measured ~1e-4 on the unchanged tree)", labels, True, **info)
        if d1 > 1e-6 and d2 > d1 / 2.0:
            return Outcome.fail("xl_does_not_converge_to_born_oppenheimer", f"|x_XL - x_BO|: {d1:.3e} at dt=0.4, {d2:.3e} at dt=0.2 (expected ~4x smaller)", labels, True, **info)
        if f2 > 1e-8 and not (2.5 <= f1 / f2 <= 6.0):
            return Outcome.fail("shadow_energy_fluctuation_not_second_order", f"shadow-energy fluctuation {f1:.3e} at dt=0.4, {f2:.3e} at dt=0.2 (ratio {f1 / f2:.2f}, expected ~4)", labels, True, **info)
        return Outcome.ok(True, labels, **info)


SUBCHECKS = [Recurrence(), Stability(), Consistency(), Dynamics()]
