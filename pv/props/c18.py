"""C18 -- invalid requests are rejected loudly; valid ones give finite results or an explicit flag (DESIGN 3/C18).

Negative side: one documented precondition is violated on an otherwise valid generated case (mutation operators below, each
grounded in a guard of the code or a sentence of the property statement). Oracle: an exception derived from Exception is
raised AND no result attribute of the molecule (Etot, force, dm, q, Hf) has been set.
Positive side: valid templates stretched / compressed (0.5-30 A), strongly charged but representable ions, table-edge
elements. Oracle: every returned energy / force / charge is finite, or the molecule is flagged not converged.
"""
import numpy as np
from hypothesis import strategies as st

from .. import molecules as M
from .. import strategies as S
from ..core import Outcome, SubCheck
from ..monitors import NonTermination
from ..seqm_api import Constants, Electronic_Structure, Molecule, notconv, pad_batch, settings, silence, tonp, torch

PROPERTY = "C18"
LEVEL = "exploration"
RULE = ("negative: Hypothesis draws a valid template case and ONE mutation operator out of {unsorted species, odd electrons "
        "under RHF, UHF parity mismatch, more electrons than the basis holds, fewer than zero electrons of a spin or in total, UHF with "
        "Pulay / KSA / SP2 / excited states / PM6, heterogeneous batch with RPA or with analytical excited gradients, excited "
        "active state without excited-state settings, active state beyond n_states, unknown remove_com mode, element outside "
        "the method's table}; positive: bond factors giving 0.5-30 A, |charge| up to 4, table-edge elements. non-trivial = "
        "exactly one precondition violated (negative) / factor outside [0.8,1.3] or |charge| >= 2 (positive); distinct = case hash")
ASSUMPTIONS = ["an exception of any Exception subclass counts as a loud rejection (the property does not prescribe the type)",
               "result attributes inspected: Etot, force, dm, q, Hf of the Molecule object"]

RESULT_ATTRS = ("Etot", "force", "dm", "q", "Hf")
# One operator per precondition ENUMERATED IN THE PROPERTY STATEMENT. Two operators of the first version were removed after
# they "failed" on the unchanged tree, because the statement does not list them as documented preconditions (oracle
# over-reach, not defects): `element_outside_table` (He is accepted by MNDO: the shipped CSV has a row for it) and
# `active_beyond_nstates` (accepted whenever the Davidson solver returns a completed degenerate shell with more roots than
# requested, e.g. P2 with n_states=2 returns 4). Their builders are kept below but are not drawn.
OPS = ["unsorted", "unsorted_heavy_only", "odd_rhf", "uhf_parity", "too_many_electrons", "uhf_alpha_exceeds_basis", "negative_spin_count", "negative_electron_count", "uhf_pulay", "uhf_ksa", "uhf_sp2",
       "uhf_excited", "uhf_pm6", "hetero_rpa", "hetero_excited_analytical", "active_without_excited", "remove_com_mode"]


@st.composite
def _neg_case(draw):
    method = draw(st.sampled_from(M.METHODS_SP))
    mol = draw(S.molecule_case(method=method, kinds=("neutral",), max_atoms=6, min_atoms=2, stretch=False))
    op = draw(st.sampled_from(OPS))
    case = {"mol": mol, "op": op, "k": draw(st.integers(0, 3))}
    if op in ("hetero_rpa", "hetero_excited_analytical"):
        pool = [t for t in M.names(method, ("neutral",), 6, 2) if M.ALL[t]["Z"] != M.ALL[mol["tpl"]]["Z"] and M.n_ov(t) >= 4]
        case["mate"] = {"method": method, "tpl": draw(st.sampled_from(pool)), "amp": 0.0}
    return case


def _build(case):
    """returns dict(species, coords, charges, mult, sp, md=None|kwargs) describing the INVALID request"""
    method = case["mol"]["method"]
    Z, x = M.geometry(case["mol"])
    Z = list(Z)
    nel = sum(M.VALENCE[z] for z in Z)
    norb = sum(1 if z == 1 else 4 for z in Z)
    op = case["op"]
    k = case["k"]
    req = dict(rows=[(Z, x)], charges=[0], mult=[1], sp=settings(method, 1e-7, (1,), (False,)), md=None)
    sp = req["sp"]
    if op == "unsorted":
        if len(set(Z)) < 2:
            return None
        order = sorted(range(len(Z)), key=lambda i: Z[i])  # ascending: violates the non-increasing convention
        req["rows"] = [([Z[i] for i in order], x[order])]
    elif op == "unsorted_heavy_only":
        # heavy atoms in ascending order, hydrogens still last: the coarse layout heavy | hydrogen | padding is respected,
        # only the documented non-increasing atomic-number order is violated
        heavy = [i for i in range(len(Z)) if Z[i] > 1]
        if len({Z[i] for i in heavy}) < 2:
            return None
        order = sorted(heavy, key=lambda i: Z[i]) + [i for i in range(len(Z)) if Z[i] == 1]
        req["rows"] = [([Z[i] for i in order], x[order])]
    elif op == "uhf_alpha_exceeds_basis":
        # the total electron count fits the basis (<= 2*norb) but the alpha count alone does not: n_alpha = norb + 1
        sp["UHF"] = True
        na = norb + 1
        nb = max(0, min(norb, nel - na)) if nel - na >= 0 else 0
        total = na + nb
        if total > 2 * norb or nb < 0:
            return None
        req["charges"] = [nel - total]
        req["mult"] = [na - nb + 1]
    elif op == "odd_rhf":
        req["charges"] = [1 if k % 2 == 0 else -1]
    elif op == "uhf_parity":
        sp["UHF"] = True
        req["mult"] = [2 if nel % 2 == 0 else 1 + 2 * (k % 2) + 0]  # even electrons with a doublet / odd with singlet
        if nel % 2 == 1:
            req["mult"] = [1 if k % 2 == 0 else 3]
    elif op == "too_many_electrons":
        # closed shell: 2*norb electrons is the most the basis can hold; ask for more (even count)
        extra = 2 * norb - nel + 2 * (1 + k)
        req["charges"] = [-extra]
    elif op == "negative_spin_count":
        sp["UHF"] = True
        # leave n electrons, ask for multiplicity n + 3: n_beta = (n - (mult-1))/2 = -1
        left = 1 + (k % 2)
        req["charges"] = [nel - left]
        req["mult"] = [left + 3]
    elif op == "negative_electron_count":
        # more positive charge than there are valence electrons
        if k % 2 == 0:
            req["charges"] = [nel + 2]            # RHF, -2 electrons
        else:
            sp["UHF"] = True
            req["charges"] = [nel + 1]            # UHF doublet with -1 electrons: n_alpha = 0, n_beta = -1
            req["mult"] = [2]
    elif op == "uhf_pulay":
        sp["UHF"] = True
        sp["scf_converger"] = [2]
    elif op == "uhf_ksa":
        sp["UHF"] = True
        sp["scf_converger"] = [3, 0.05, 5, 1e-4]
    elif op == "uhf_sp2":
        sp["UHF"] = True
        sp["sp2"] = [True, 1e-5]
    elif op == "uhf_excited":
        sp["UHF"] = True
        sp["excited_states"] = {"n_states": 2, "method": "cis"}
    elif op == "uhf_pm6":
        sp["UHF"] = True
        sp["method"] = "PM6"
    elif op in ("hetero_rpa", "hetero_excited_analytical"):
        if M.n_ov(case["mol"]["tpl"]) < 4:
            return None
        z2, x2 = M.geometry(case["mate"])
        req["rows"].append((list(z2), x2))
        req["charges"], req["mult"] = [0, 0], [1, 1]
        if op == "hetero_rpa":
            sp["excited_states"] = {"n_states": 2, "method": "rpa"}
        else:
            sp["excited_states"] = {"n_states": 2, "method": "cis"}
            sp["active_state"] = 1
            sp["analytical_gradient"] = [True]
    elif op == "active_without_excited":
        sp["active_state"] = 1 + k
    elif op == "active_beyond_nstates":
        if M.n_ov(case["mol"]["tpl"]) < 6:
            return None
        sp["excited_states"] = {"n_states": 2, "method": "cis"}
        sp["active_state"] = 3 + k
    elif op == "remove_com_mode":
        req["md"] = {"remove_com": (["rotational", "both", "", "lin"][k], 1)}
    elif op == "element_outside_table":
        # an element the method's shipped table does not parametrise
        missing = {"MNDO": [12, 2], "AM1": [3, 11, 12, 2], "PM3": [5, 11, 2], "PM6_SP": [2, 10]}[method]
        znew = missing[k % len(missing)]
        zz = sorted(Z[:-1] + [znew], reverse=True)
        req["rows"] = [(zz, x)]
        req["skip_parity"] = True
    return req


def _attempt(req):
    """execute the request; returns (exception or None, molecule or None)"""
    Sx, X = pad_batch(req["rows"])
    mol = None
    try:
        with silence():
            sp = req["sp"]
            mol = Molecule(Constants(), sp, torch.tensor(X), torch.tensor(Sx), charges=torch.tensor(req["charges"]),
                           mult=torch.tensor(req["mult"]))
            if req["md"] is not None:
                from seqm.MolecularDynamics import Molecular_Dynamics_Basic

                md = Molecular_Dynamics_Basic(seqm_parameters=sp, Temp=300.0, timestep=0.5,
                                              output={"molid": [0], "prefix": "c18", "print every": 0, "xyz": 0, "checkpoint every": 0, "h5": {}})
                md.run(mol, steps=1, seed=1, **req["md"])
            else:
                from ..monitors import sp2_monitor
                import contextlib

                with (sp2_monitor() if sp.get("sp2", [False])[0] else contextlib.nullcontext()):
                    Electronic_Structure(sp)(mol)
    except NonTermination:
        raise
    except Exception as e:
        return e, mol
    return None, mol


class Reject(SubCheck):
    name = "reject"
    budget = {"quick": 2400, "thorough": 60000}
    weight = 1.0

    def strategy(self, tier):
        return _neg_case()

    def oracle(self, case):
        labels = ["op:" + case["op"], "method:" + case["mol"]["method"]]
        req = _build(case)
        if req is None:
            return Outcome.inconclusive("operator_not_applicable_to_template", labels)
        exc, mol = _attempt(req)
        if exc is None:
            vals = {}
            if mol is not None and mol.Etot is not None:
                vals = {"Etot": tonp(mol.Etot).tolist(), "notconverged": None}
            return Outcome.fail("accepted:" + case["op"], f"invalid request ({case['op']}: charges {req['charges']}, mult {req['mult']}, "
                                f"settings {dict((k, v) for k, v in req['sp'].items() if k not in ('elements',))}) was accepted: {vals}", labels, True)
        if mol is not None:
            setattrs = [a for a in RESULT_ATTRS if getattr(mol, a, None) is not None]
            if setattrs:
                return Outcome.fail("result_before_rejection:" + case["op"], f"{type(exc).__name__} raised but result attributes {setattrs} were already set", labels, True)
        labels.append("exc:" + type(exc).__name__)
        return Outcome.ok(True, labels)


@st.composite
def _pos_case(draw):
    method = draw(st.sampled_from(M.METHODS_SP))
    kind = draw(st.sampled_from(["stretch", "stretch", "compress", "charged", "edge", "uhf_ion", "uhf_ion"]))
    pool = M.names(method, ("neutral",), 6, 2)
    if kind == "edge":
        edge = {max(M.POOL[method]), min(z for z in M.POOL[method] if z > 1), 11 if 11 in M.POOL[method] else 3, 12 if 12 in M.POOL[method] else 4}
        pool = [t for t in pool if set(M.ALL[t]["Z"]) & edge] or pool
    tpl = draw(st.sampled_from(pool))
    n = len(M.ALL[tpl]["Z"])
    case = {"mol": {"method": method, "tpl": tpl, "amp": 0.0}, "kind": kind, "conv": draw(st.sampled_from([[1], [0, 0.2], [2]]))}
    if kind == "stretch":
        case["factor"] = draw(st.sampled_from([1.5, 2.0, 3.0, 5.0, 10.0, 20.0, 30.0]))
    elif kind == "compress":
        case["factor"] = draw(st.sampled_from([0.8, 0.7, 0.6, 0.5]))
    elif kind == "charged":
        case["charge"] = draw(st.sampled_from([-4, -2, 2, 4]))
    elif kind == "uhf_ion":
        # open-shell, possibly highly charged ions incl. an EMPTY beta channel, optionally batched with a (stretched) partner
        nel = M.n_electrons(tpl)
        left = draw(st.sampled_from([1, 2, 2, 3, 4]))
        left = min(left, nel)
        case["charge"] = nel - left
        case["mult"] = draw(st.sampled_from([m for m in (1, 2, 3, 4, 5) if (left - (m - 1)) % 2 == 0 and left - (m - 1) >= 0] or [left + 1]))
        case["conv"] = draw(st.sampled_from([[1], [1], [1], [0, 0.2]]))
        if draw(st.integers(0, 9)) < 7:
            # an ion with an empty spin channel that is still iterating next to a partner whose SCF needs strong
            # re-normalisation (stretched geometry) is where per-spin bookkeeping of the batch solvers is stressed most
            case["mate"] = {"method": method, "tpl": draw(st.sampled_from(pool)), "amp": 0.0}
            case["mate_factor"] = draw(st.sampled_from([1.5, 2.0, 2.0, 3.0]))
    return case


class AcceptFinite(SubCheck):
    name = "accept_finite"
    budget = {"quick": 1000, "thorough": 20000}
    weight = 3.0

    def strategy(self, tier):
        return _pos_case()

    def oracle(self, case):
        method = case["mol"]["method"]
        Z, x = M.geometry(case["mol"])
        Z = list(Z)
        labels = ["kind:" + case["kind"], "method:" + method, "conv:%s" % case["conv"][0]]
        nontrivial = True
        if "factor" in case:
            c = x.mean(axis=0)
            x = c + case["factor"] * (x - c)
            dmin = M.mindist(x)
            labels.append("mindist:%s" % ("<0.6" if dmin < 0.6 else ("<1" if dmin < 1 else ("<5" if dmin < 5 else ">=5"))))
            if dmin < 0.5:
                return Outcome.inconclusive("closer_than_0.5A", labels)
            nontrivial = not (0.8 <= case["factor"] <= 1.3)
        q = case.get("charge", 0)
        nel = sum(M.VALENCE[z] for z in Z) - q
        norb = sum(1 if z == 1 else 4 for z in Z)
        from ..seqm_api import pad_batch, run_sp

        if case["kind"] == "uhf_ion":
            mult = case["mult"]
            na, nb = (nel + mult - 1) // 2, (nel - mult + 1) // 2
            if nb < 0 or na > norb or (nel + mult - 1) % 2:
                return Outcome.inconclusive("charge_not_representable", labels)
            labels.append("beta_empty" if nb == 0 else "beta_nonempty")
            rows, ch, mu = [(Z, x)], [q], [mult]
            if case.get("mate"):
                z2, x2 = M.geometry(case["mate"])
                c2 = x2.mean(axis=0)
                rows.append((list(z2), c2 + case["mate_factor"] * (x2 - c2)))
                ch.append(0)
                mu.append(1)
                labels.append("batched")
            Sx, X = pad_batch(rows)
            try:
                r = run_sp(Sx, X, method=method, eps=1e-7, conv=case["conv"], charges=np.array(ch), mult=np.array(mu), uhf=True)
            except Exception as exc:
                if "eigh" in str(exc):
                    # an eigensolver failure that is reported loudly is not a silent NaN; but it must not be CAUSED by
                    # batching two requests that are individually fine
                    alone_ok = True
                    for k in range(len(rows)):
                        try:
                            run_sp([rows[k][0]], [rows[k][1]], method=method, eps=1e-7, conv=case["conv"], charges=ch[k], mult=mu[k], uhf=True)
                        except Exception:
                            alone_ok = False
                    if alone_ok and len(rows) > 1:
                        return Outcome.fail("batch_of_individually_valid_requests_rejected", f"{type(exc).__name__}: {str(exc)[:120]} although every member runs alone", labels, True)
                    return Outcome.inconclusive("eigensolver_failure_reported_loudly", labels)
                return Outcome.fail(f"valid_input_rejected:{case['kind']}:{type(exc).__name__}", f"valid request raised {type(exc).__name__}: {str(exc)[:200]}", labels, True)
            nc = notconv(r)
            E, F, qq, Hf = tonp(r.mol.Etot), tonp(r.mol.force), tonp(r.mol.q), tonp(r.mol.Hf)
            for b in range(len(rows)):
                fin = all(np.isfinite(a[b]).all() for a in (E, F, qq, Hf))
                if not fin and not nc[b]:
                    return Outcome.fail("nonfinite_without_flag:uhf", f"row {b}: NaN/inf in results with notconverged False (charges {ch}, mult {mu})", labels, True)
            labels.append("flag:" + ("notconverged" if nc.any() else "converged"))
            return Outcome.ok(True, labels)
        if nel < 2 or nel > 2 * norb - 2 or nel % 2:
            return Outcome.inconclusive("charge_not_representable", labels)

        try:
            # one call through the wrapper that keeps the driver object (the non-convergence flag lives on it)
            r = run_sp([Z], [x], method=method, eps=1e-7, conv=case["conv"], charges=q)
        except Exception as exc:
            # a valid request must be accepted
            return Outcome.fail(f"valid_input_rejected:{case['kind']}:{type(exc).__name__}",
                                f"valid request raised {type(exc).__name__}: {str(exc)[:200]}", labels, nontrivial)
        nc = bool(notconv(r).any())
        E, F, qq, Hf = tonp(r.mol.Etot), tonp(r.mol.force), tonp(r.mol.q), tonp(r.mol.Hf)
        finite = all(np.isfinite(a).all() for a in (E, F, qq, Hf))
        labels.append("flag:" + ("notconverged" if nc else "converged"))
        if not finite and not nc:
            return Outcome.fail("nonfinite_without_flag", f"NaN/inf in results with notconverged False: Etot {E.tolist()}", labels, nontrivial)
        return Outcome.ok(nontrivial, labels)


SUBCHECKS = [Reject(), AcceptFinite()]
