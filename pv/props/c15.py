"""C15 -- results depend only on the call's inputs, not on process history or threads (DESIGN 3/C15).

A Hypothesis RuleBasedStateMachine generates call histories: create settings dictionaries, run single points (fresh or reused
dictionary, fresh or reused driver), excited-state calculations, short MD runs, calls that fail, differentiable forward passes
whose losses are kept pending and backward passes over any subset of them, changes of the thread count, and exact repeats.
The history executes live in ONE forked session process (so state can leak exactly as it would for a user); each job's
reference result is computed by the same job alone in its own freshly forked process (settings, driver, molecule all new).

Oracle (after every step): the job's numbers in the history equal the fresh-process numbers bit for bit while the session is
single-threaded (the code is deterministic there: measured, see evidence), within a convergence-level tolerance after the
thread count was changed; an exact repeat is bitwise equal to the first occurrence whatever the thread count.
"""
import hashlib
import json
import os
import signal
import tempfile
import traceback
from multiprocessing import Pipe

import numpy as np
from hypothesis import strategies as st
from hypothesis.stateful import Bundle, RuleBasedStateMachine, consumes, initialize, multiple, rule

from .. import molecules as M
from ..core import Outcome, SubCheck, case_hash
from ..seqm_api import Constants, Molecule, settings, silence, tonp, torch

PROPERTY = "C15"
LEVEL = "exploration"
RULE = ("Hypothesis rule-based state machine: histories of 2-12 calls drawn from {new settings dict, single point (fresh/reused dict, "
        "fresh/reused driver), CIS single point, 2-step BOMD, call that raises, differentiable forward (loss kept pending), backward over a "
        "subset of pending losses, set thread count 1..16, exact repeat} over 11 small molecules common to AM1/PM3/MNDO x solver / eps / "
        "UHF / SP2 / scf_backward settings. non-trivial = a compared result that was preceded in the same process by at least one call with "
        "a different settings configuration or molecule; distinct = hash of the history prefix")
ASSUMPTIONS = ["reference = the same job alone in a freshly forked process with new dictionary, driver and molecule objects",
               "bitwise equality is demanded only while the session has never left 1 thread (and for exact repeats); after a thread change "
               "|dE| <= 20*eps + 1e-10 eV, |dF| <= 2e3*eps + 1e-9 eV/A, |d grad| <= 1e-6 (loose SCF) because reduction order may differ",
               "calls that are documented to raise are only required to leave later results unchanged"]

POOL = ["H2O", "NH3", "CH4", "HF", "H2CO", "HCN", "CO2", "H2S", "HCl", "CH3F", "N2"]
METHODS = ["AM1", "PM3", "MNDO"]


# ---------------------------------------------------------------------------------------------------------------- session
def _geom(mol):
    tpl = POOL[mol["tpl"] % len(POOL)]
    n = len(M.ALL[tpl]["Z"])
    disp = [(((mol["d"] * 7919 + 31 * i) % 23) - 11) / 11.0 for i in range(3 * n)]
    Z, X = M.geometry({"tpl": tpl, "amp": 0.08, "disp": disp})
    return list(Z), np.asarray(X)


def _mk_settings(cfg):
    extra = {}
    if cfg.get("excited"):
        # explicit / omitted options: an omitted key takes the code's default (cis, 1e-6), which must not depend on earlier jobs
        ex = {"n_states": 2}
        if cfg["excited"] in ("cis", "rpa"):
            ex["method"] = cfg["excited"]
        if cfg.get("cis_tol"):
            ex["tolerance"] = cfg["cis_tol"]
        extra["excited_states"] = ex
        extra["active_state"] = 0
    if cfg.get("backward"):
        extra["scf_backward"] = cfg["backward"]
    if cfg.get("analytical"):
        extra["analytical_gradient"] = [True]
    sd = settings(cfg["method"], cfg["eps"], cfg["conv"], cfg.get("sp2", [False]), cfg.get("uhf", False), extra)
    if cfg.get("elements_all"):
        # the optional user-supplied element list: with it a dictionary / driver can legitimately serve molecules of different elements
        sd["elements"] = [0] + sorted({z for t in POOL for z in M.ALL[t]["Z"]})
    return sd


class _Ctx:
    def __init__(self):
        self.settings, self.cfg, self.drivers, self.driver_sid, self.pending = {}, {}, {}, {}, {}
        self.tmp = tempfile.mkdtemp(prefix="pv_c15_")


def _numbers(mol, es, excited):
    d = {"Etot": tonp(mol.Etot), "force": tonp(mol.force), "q": tonp(mol.q),
         "notconverged": np.asarray(tonp(torch.as_tensor(es.notconverged)), dtype=bool) if es is not None else None}
    if torch.is_tensor(getattr(mol, "e_gap", None)):
        d["gap"] = tonp(mol.e_gap)
    if excited and getattr(mol, "cis_energies", None) is not None:
        d["cis"] = tonp(mol.cis_energies)
    return d


def _execute(op, ctx):
    from seqm.ElectronicStructure import Electronic_Structure

    kind = op["op"]
    if kind == "threads":
        torch.set_num_threads(int(op["n"]))
        return {}
    if kind == "settings":
        ctx.settings[op["id"]] = _mk_settings(op["cfg"])
        ctx.cfg[op["id"]] = op["cfg"]
        return {}
    if kind in ("sp", "forward", "md", "fail"):
        cfg = op["cfg"]
        sd = ctx.settings[op["sid"]] if op.get("sid") is not None else _mk_settings(cfg)
        Z, X = _geom(op["mol"])
        sp = torch.tensor([Z])
        xyz = torch.tensor(X[None], dtype=torch.float64)
    if kind == "sp":
        with silence():
            mol = Molecule(Constants(), sd, xyz, sp)
            if op.get("did") is not None and op["did"] in ctx.drivers:
                es = ctx.drivers[op["did"]]
            else:
                es = Electronic_Structure(sd)
                if op.get("did") is not None:
                    ctx.drivers[op["did"]] = es
            es(mol)
        return _numbers(mol, es, cfg.get("excited"))
    if kind == "forward":
        from seqm.basics import Energy

        with silence():
            mol = Molecule(Constants(), sd, xyz, sp)
            mol.coordinates.requires_grad_(True)
            out = Energy(sd)(mol, all_terms=True)
        Hf, Etot, e_gap, charge = out[0], out[1], out[6], out[9]
        loss = 0.1 * Etot.sum() + e_gap.sum() + (charge[0, 0] if charge.dim() == 2 else charge.reshape(-1)[0])
        ctx.pending[op["pid"]] = (loss, mol)
        return {"Etot": tonp(Etot), "gap": tonp(e_gap), "loss": tonp(loss)}
    if kind == "backward":
        total = None
        for pid in op["pids"]:
            total = ctx.pending[pid][0] if total is None else total + ctx.pending[pid][0]
        with silence():
            total.backward()
        res = {}
        for pid in op["pids"]:
            loss, mol = ctx.pending.pop(pid)
            res["grad_%d" % pid] = tonp(mol.coordinates.grad)
        return res
    if kind == "md":
        import seqm.MolecularDynamics as MD

        out = {"molid": [0], "prefix": os.path.join(ctx.tmp, "md%d" % op.get("n", 0)), "print every": 0, "xyz": 0, "checkpoint every": 0, "h5": {}}
        with silence():
            mol = Molecule(Constants(), sd, xyz, sp)
            md = MD.Molecular_Dynamics_Basic(seqm_parameters=sd, Temp=300.0, timestep=0.4, output=out)
            md.run(mol, steps=2, seed=op.get("seed", 1))
        return {"x": tonp(mol.coordinates), "v": tonp(mol.velocities), "Etot": tonp(mol.Etot)}
    if kind == "fail":
        how = op["how"]
        with silence():
            if how == "odd_electrons_rhf":
                mol = Molecule(Constants(), sd, xyz, sp, charges=torch.tensor([1]))
                Electronic_Structure(sd)(mol)
            elif how == "unparametrised_element":
                sp2 = sp.clone()
                sp2[0, 0] = 36
                mol = Molecule(Constants(), sd, xyz, sp2)
                Electronic_Structure(sd)(mol)
            elif how == "bad_method":
                bad = dict(sd)
                bad["method"] = "XYZ9"
                bad.pop("elements", None)
                mol = Molecule(Constants(), bad, xyz, sp)
                Electronic_Structure(bad)(mol)
        return {"raised": False}
    raise ValueError(kind)


def _serve(conn):
    ctx = _Ctx()
    while True:
        try:
            op = conn.recv()
        except EOFError:
            os._exit(0)
        if op is None:
            os._exit(0)
        try:
            conn.send(("ok", _execute(op, ctx)))
        except BaseException as e:  # reported to the parent, which decides what it means
            conn.send(("exc", type(e).__name__, str(e)[:300], traceback.format_exc()[-1500:]))


class Session:
    def __init__(self):
        a, b = Pipe()
        pid = os.fork()
        if pid == 0:
            a.close()
            try:
                _serve(b)
            finally:
                os._exit(0)
        b.close()
        self.conn, self.pid = a, pid

    def call(self, op, timeout=600):
        self.conn.send(op)
        if not self.conn.poll(timeout):
            self.close(kill=True)
            return ("timeout",)
        try:
            return self.conn.recv()
        except EOFError:
            return ("died",)

    def close(self, kill=False):
        try:
            if kill:
                os.kill(self.pid, signal.SIGKILL)
            else:
                self.conn.send(None)
        except Exception:
            pass
        try:
            os.waitpid(self.pid, 0)
        except Exception:
            pass
        try:
            self.conn.close()
        except Exception:
            pass


_BASE = {}


def baseline(op):
    """the job alone in a fresh process (fresh dictionary, driver, molecule); cached per worker"""
    solo = dict(op)
    solo["sid"] = None
    solo["did"] = None
    if solo["op"] == "forward":
        solo["pid"] = 0
    solo.pop("did_reused", None)
    key = case_hash({k: v for k, v in solo.items() if k not in ("n",)})
    if key not in _BASE:
        s = Session()
        try:
            r = s.call(solo)
            if r[0] == "ok" and solo["op"] == "forward":
                g = s.call({"op": "backward", "pids": [0]})
                if g[0] == "ok":
                    r[1]["grad"] = g[1]["grad_0"]
                else:
                    r = g
        finally:
            s.close()
        _BASE[key] = r
        if len(_BASE) > 4000:
            _BASE.pop(next(iter(_BASE)))
    return _BASE[key]


# ----------------------------------------------------------------------------------------------------------------- oracle
def _cmp(name, a, b, tol):
    if a is None and b is None:
        return None
    if a is None or b is None:
        return f"{name}: one side missing"
    a, b = np.asarray(a), np.asarray(b)
    if a.shape != b.shape:
        return f"{name}: shape {a.shape} vs {b.shape}"
    if a.dtype == bool or tol == 0.0:
        if not np.array_equal(a, b, equal_nan=(a.dtype.kind == "f")):
            if a.dtype == bool:
                return f"{name}: {a.tolist()} vs {b.tolist()}"
            with np.errstate(all="ignore"):
                return f"{name}: not bitwise equal, max|diff| {float(np.nanmax(np.abs(a - b))):.3e}"
        return None
    with np.errstate(all="ignore"):
        d = float(np.nanmax(np.abs(a - b))) if a.size else 0.0
    return None if d <= tol else f"{name}: max|diff| {d:.3e} > {tol:.1e}"


def _tols(cfg, threaded):
    if not threaded:
        return {"Etot": 0.0, "force": 0.0, "q": 0.0, "gap": 0.0, "cis": 0.0, "grad": 0.0, "x": 0.0, "v": 0.0, "loss": 0.0}
    e = cfg["eps"]
    return {"Etot": 20 * e + 1e-10, "force": 2e3 * e + 1e-9, "q": 1e3 * e + 1e-9, "gap": 1e3 * e + 1e-9, "cis": 1e3 * e + 1e-7,
            "grad": 1e4 * e + 1e-8, "x": 1e3 * e + 1e-9, "v": 1e3 * e + 1e-9, "loss": 1e3 * e + 1e-9}


class Replayer:
    """executes a history op by op against a live session and judges every step; used by the machine and by replay"""

    def __init__(self):
        self.sess = Session()
        self.threaded = False
        self.ops = []
        self.seen_cfgs = []
        self.pending_ops = {}
        self.first = {}          # job key -> first result in this session (exact repeats)
        self.dict_elements = {}  # settings id -> elements of the first molecule that used the dictionary

    def close(self):
        self.sess.close()

    def step(self, op):
        """returns an Outcome for this step (ok / fail / inconclusive)"""
        self.ops.append(op)
        kind = op["op"]
        labels = ["op:" + kind]
        if kind == "threads":
            if op["n"] != 1:
                self.threaded = True
            r = self.sess.call(op)
            return Outcome.ok(False, labels)
        if kind == "settings":
            self.sess.call(op)
            return Outcome.ok(False, labels)
        if kind == "fail":
            r = self.sess.call(op)
            if r[0] in ("timeout", "died"):
                return Outcome.inconclusive("session_" + r[0], labels)
            labels.append("fail:" + op["how"] + (":raised" if r[0] == "exc" else ":accepted"))
            self.seen_cfgs.append(("fail", op["how"]))
            return Outcome.ok(False, labels)
        cfg = op.get("cfg")
        if kind == "backward":
            r = self.sess.call(op)
            if r[0] in ("timeout", "died"):
                return Outcome.inconclusive("session_" + r[0], labels)
            if r[0] == "exc":
                bases = [baseline(self.pending_ops[p]) for p in op["pids"]]
                for p in op["pids"]:
                    self.pending_ops.pop(p)
                if any(b[0] == "exc" for b in bases):
                    # the job's backward pass raises on its own as well (e.g. "Picard did not converge" of the implicit adjoint):
                    # not a matter of history
                    labels.append("raises_both")
                    return Outcome.ok(False, labels)
                return Outcome.fail("backward_raises_in_history", f"backward over pending {op['pids']} raised {r[1]}: {r[2]}", labels, True, history=self.ops)
            labels.append("backward_over:%d" % len(op["pids"]))
            cfgs = {json.dumps(self.pending_ops[p]["cfg"], sort_keys=True) for p in op["pids"]}
            mixed = len(cfgs) > 1
            if mixed:
                labels.append("backward_mixed_settings")
            for p in op["pids"]:
                fop = self.pending_ops.pop(p)
                base = baseline(fop)
                if base[0] != "ok":
                    continue
                tol = _tols(fop["cfg"], self.threaded)["grad"]
                why = _cmp("d loss/d x of forward #%d (%s %s eps=%g backward=%s)" % (p, fop["cfg"]["method"], POOL[fop["mol"]["tpl"] % len(POOL)], fop["cfg"]["eps"], fop["cfg"].get("backward")),
                           r[1]["grad_%d" % p], base[1]["grad"], tol)
                if why:
                    bucket = "gradient_depends_on_other_pending_jobs" if mixed else "gradient_depends_on_history"
                    return Outcome.fail(bucket, why + f"; backward over {len(op['pids'])} pending losses" + (" with different settings" if mixed else ""), labels, True, history=self.ops)
            return Outcome.ok(len(self.seen_cfgs) > 1, labels)
        # sp / forward / md
        r = self.sess.call(op)
        if r[0] in ("timeout", "died"):
            return Outcome.inconclusive("session_" + r[0], labels)
        base = baseline(op)
        if base[0] in ("timeout", "died"):
            return Outcome.inconclusive("baseline_" + base[0], labels)
        me = (json.dumps(cfg, sort_keys=True), op["mol"]["tpl"] % len(POOL))
        nontrivial = any(c != me for c in self.seen_cfgs)
        self.seen_cfgs.append(me)
        labels += ["method:" + cfg["method"], "reuse_dict:%s" % (op.get("sid") is not None), "reuse_driver:%s" % (op.get("did") is not None and op.get("did_reused", False)),
                   "threaded:%s" % self.threaded]
        if kind == "forward":
            self.pending_ops[op["pid"]] = op
        new_element = False
        if op.get("sid") is not None:
            els = set(_geom(op["mol"])[0])
            first = self.dict_elements.setdefault(op["sid"], els)
            new_element = not els <= first and not cfg.get("elements_all")
            if new_element:
                labels.append("reused_dict_meets_new_element")
        hist_bucket = "reused_settings_dict_lacks_new_element" if new_element else None
        if base[0] == "exc" and r[0] == "exc":
            labels.append("raises_both")
            return Outcome.ok(False, labels)
        if base[0] == "exc":
            return Outcome.inconclusive("baseline_raises:" + base[1], labels)
        if r[0] == "exc":
            return Outcome.fail(hist_bucket or "raises_only_in_history", f"{kind} {cfg['method']} {POOL[op['mol']['tpl'] % len(POOL)]} runs alone but raises after this history: {r[1]}: {r[2][:120]}", labels, True, history=self.ops, error=r[3])
        tols = _tols(cfg, self.threaded)
        for k in ("notconverged", "Etot", "force", "q", "gap", "cis", "x", "v", "loss"):
            if k in base[1] or k in r[1]:
                why = _cmp(k, r[1].get(k), base[1].get(k), tols.get(k, 0.0))
                if why:
                    what = ("dict reused" if op.get("sid") is not None else "fresh dict") + ", " + ("driver reused" if op.get("did_reused") else "fresh driver")
                    return Outcome.fail(hist_bucket or "result_depends_on_history", f"{kind} {cfg['method']} {POOL[op['mol']['tpl'] % len(POOL)]} ({what}, step {len(self.ops)}): {why} vs the same job alone in a fresh process", labels, True, history=self.ops)
        # exact repeat inside the session: bitwise whatever the thread count
        key = case_hash({k: v for k, v in op.items() if k not in ("n", "pid")})
        if key in self.first and kind != "forward":
            labels.append("exact_repeat")
            for k, v in self.first[key].items():
                why = _cmp(k, r[1].get(k), v, 0.0)
                if why:
                    return Outcome.fail("repeat_not_bitwise_identical", f"identical call repeated at step {len(self.ops)}: {why}", labels, True, history=self.ops)
        else:
            self.first[key] = r[1]
        return Outcome.ok(nontrivial, labels)


# ----------------------------------------------------------------------------------------------------------------- machine
@st.composite
def _cfg(draw, grad=False):
    cfg = {"method": draw(st.sampled_from(METHODS)), "eps": draw(st.sampled_from([1e-5, 1e-8, 1e-10])), "conv": draw(st.sampled_from([[1], [0, 0.3], [2], [1]]))}
    flavour = draw(st.sampled_from(["plain", "plain", "uhf", "sp2", "excited", "excited", "analytical"])) if not grad else "plain"
    if flavour == "uhf":
        cfg["uhf"] = True
    elif flavour == "sp2":
        cfg["sp2"] = [True, 1e-6]
    elif flavour == "excited":
        cfg["excited"] = draw(st.sampled_from(["cis", "rpa", "default", "default"]))
        tol = draw(st.sampled_from([None, None, 1e-8]))
        if tol:
            cfg["cis_tol"] = tol
    elif flavour == "analytical":
        cfg["analytical"] = True
    if draw(st.booleans()):
        cfg["elements_all"] = True
    if grad:
        cfg["backward"] = draw(st.sampled_from([1, 1, 2]))
        cfg["conv"] = draw(st.sampled_from([[1], [2]]))
    return cfg


_COUNT = [0]
_MOL = st.fixed_dictionaries({"tpl": st.integers(0, len(POOL) - 1), "d": st.integers(0, 3)})


def make_machine(rec, Failure, tier, sub):
    class Histories(RuleBasedStateMachine):
        dicts = Bundle("dicts")
        pend = Bundle("pend")

        def __init__(self):
            super().__init__()
            self.rp = Replayer()
            self.n = 0
            self.cfgs = {}
            self.drivers = {}
            self.npend = 0
            _COUNT[0] += 1

        def teardown(self):
            self.rp.close()

        def _judge(self, op):
            out = self.rp.step(op)
            if rec.record({"history": list(self.rp.ops)}, out):
                raise Failure(out.get("bucket"))

        @initialize(target=dicts, cfgs=st.lists(_cfg(), min_size=2, max_size=2))
        def first_settings(self, cfgs):
            ids = []
            for cfg in cfgs:
                self.n += 1
                self.cfgs[self.n] = cfg
                self._judge({"op": "settings", "id": self.n, "cfg": cfg})
                ids.append(self.n)
            return multiple(*ids)

        @rule(target=dicts, cfg=_cfg())
        def new_settings(self, cfg):
            self.n += 1
            self.cfgs[self.n] = cfg
            self._judge({"op": "settings", "id": self.n, "cfg": cfg})
            return self.n

        @rule(cfg=_cfg(), mol=_MOL)
        def single_point_fresh(self, cfg, mol):
            self._judge({"op": "sp", "cfg": cfg, "mol": mol, "sid": None, "did": None})

        @rule(sid=dicts, mol=_MOL, driver=st.booleans())
        def single_point_reused_dict(self, sid, mol, driver):
            op = {"op": "sp", "cfg": self.cfgs[sid], "mol": mol, "sid": sid, "did": None}
            if driver:
                op["did"] = sid
                op["did_reused"] = sid in self.drivers
                self.drivers[sid] = True
            self._judge(op)

        @rule(sid=dicts, mol=_MOL)
        def single_point_reused_dict_and_driver(self, sid, mol):
            self.single_point_reused_dict(sid=sid, mol=mol, driver=True)

        @rule(sid=dicts, mol=_MOL, seed=st.integers(0, 2))
        def short_md_reused_dict(self, sid, mol, seed):
            cfg = self.cfgs[sid]
            if cfg.get("excited") or cfg.get("sp2"):
                return
            self.n += 1
            self._judge({"op": "md", "cfg": cfg, "mol": mol, "sid": sid, "seed": seed, "n": self.n})

        @rule(cfg=_cfg(), mol=_MOL, seed=st.integers(0, 2))
        def short_md(self, cfg, mol, seed):
            if cfg.get("excited") or cfg.get("sp2"):
                cfg = {k: v for k, v in cfg.items() if k not in ("excited", "sp2")}
            self.n += 1
            self._judge({"op": "md", "cfg": cfg, "mol": mol, "sid": None, "seed": seed, "n": self.n})

        @rule(cfg=_cfg(), mol=_MOL, how=st.sampled_from(["odd_electrons_rhf", "unparametrised_element", "bad_method"]))
        def failing_call(self, cfg, mol, how):
            cfg = {k: v for k, v in cfg.items() if k != "uhf"}
            self._judge({"op": "fail", "cfg": cfg, "mol": mol, "sid": None, "how": how})

        @rule(target=pend, cfg=_cfg(grad=True), mol=_MOL)
        def forward(self, cfg, mol):
            self.npend += 1
            self._judge({"op": "forward", "cfg": cfg, "mol": mol, "sid": None, "pid": self.npend})
            return self.npend

        @rule(pids=st.lists(consumes(pend), min_size=1, max_size=3, unique=True))
        def backward(self, pids):
            self._judge({"op": "backward", "pids": sorted(pids)})

        @rule(a=consumes(pend), b=consumes(pend))
        def backward_pair(self, a, b):
            if a != b:
                self._judge({"op": "backward", "pids": sorted([a, b])})

        @rule(target=pend, cfg=_cfg(grad=True), mol=_MOL)
        def forward_again(self, cfg, mol):
            return self.forward(cfg=cfg, mol=mol)

        @rule(a=_cfg(grad=True), b=_cfg(grad=True), ma=_MOL, mb=_MOL, which=st.sampled_from(["first", "second", "both", "both"]))
        def two_forwards_one_backward(self, a, b, ma, mb, which):
            """the interleaving the property text singles out: losses of two jobs alive at once, one backward call"""
            self.npend += 2
            pa, pb = self.npend - 1, self.npend
            self._judge({"op": "forward", "cfg": a, "mol": ma, "sid": None, "pid": pa})
            self._judge({"op": "forward", "cfg": b, "mol": mb, "sid": None, "pid": pb})
            first = {"first": [pa], "second": [pb], "both": [pa, pb]}[which]
            self._judge({"op": "backward", "pids": first})
            rest = [p for p in (pa, pb) if p not in first]
            if rest:
                self._judge({"op": "backward", "pids": rest})

        @rule(method=st.sampled_from(METHODS), how=st.sampled_from(["rpa", "cis"]), tol=st.sampled_from([None, 1e-8]), ma=_MOL, mb=_MOL, eps=st.sampled_from([1e-8, 1e-10]))
        def excited_explicit_then_default(self, method, how, tol, ma, mb, eps):
            """an excited-state job that spells its options out, then one that relies on the defaults"""
            a = {"method": method, "eps": eps, "conv": [1], "excited": how}
            if tol:
                a["cis_tol"] = tol
            self._judge({"op": "sp", "cfg": a, "mol": ma, "sid": None, "did": None})
            self._judge({"op": "sp", "cfg": {"method": method, "eps": eps, "conv": [1], "excited": "default"}, "mol": mb, "sid": None, "did": None})

        @rule(sid=dicts, mols=st.lists(_MOL, min_size=2, max_size=3))
        def driver_reuse_chain(self, sid, mols):
            for m in mols:
                self.single_point_reused_dict(sid=sid, mol=m, driver=True)

        @rule(n=st.sampled_from([1, 2, 4, 16]))
        def set_threads(self, n):
            self._judge({"op": "threads", "n": n})

        @rule(data=st.data())
        def repeat_earlier_call(self, data):
            prev = [o for o in self.rp.ops if o["op"] in ("sp", "md")]
            if not prev:
                return
            self._judge(dict(data.draw(st.sampled_from(prev))))

    return Histories


class Histories(SubCheck):
    name = "histories"
    stateful = True
    budget = {"quick": 32, "thorough": 800}       # histories (measured: 40-75 s per history and shard)
    step_count = {"quick": 10, "thorough": 16}
    weight = 4.0

    def machine(self, rec, Failure, tier):
        return make_machine(rec, Failure, tier, self)

    def histories_run(self):
        n, _COUNT[0] = _COUNT[0], 0
        return n

    def oracle(self, case):
        """replay of a recorded history"""
        rp = Replayer()
        try:
            out = Outcome.ok(False, [])
            for op in case["history"]:
                out = rp.step(dict(op))
                if out["status"] == "fail":
                    return out
            return out
        finally:
            rp.close()

    def simplify(self, case):
        h = case["history"]
        for i in range(len(h) - 2, -1, -1):
            op = h[i]
            rest = h[:i] + h[i + 1:]
            if op["op"] == "settings" and any(o.get("sid") == op["id"] for o in rest):
                continue
            if op["op"] == "forward" and any(op["pid"] in o.get("pids", []) for o in rest):
                continue
            yield {"history": rest}


SUBCHECKS = [Histories()]
