"""C05 -- batching, padding, ordering and same-element relabelling are transparent (DESIGN 3/C05).

Differential oracle: every per-row output of a molecule computed inside a generated batch equals the output of the same
molecule computed alone -- whatever the batch mates, its position, the amount of zero padding and the numbers stored in the
padding coordinate slots. A same-element transposition inside a row permutes per-atom outputs and changes nothing else.
Short MD trajectories (explicit velocities, deterministic engines) of a molecule are the same alone and inside a batch.
"""
import os
import shutil
import tempfile

import h5py
import numpy as np
from hypothesis import strategies as st

from .. import molecules as M
from .. import strategies as S
from ..core import Outcome, SubCheck
from ..seqm_api import Constants, Molecule, notconv, run_sp, settings, silence, tonp, torch

PROPERTY = "C05"
LEVEL = "exploration"
RULE = ("Hypothesis draws 2-4 molecules of different size / composition / charge (all RHF or all UHF), a batch order, extra padding "
        "width 0-3, padding coordinates {zeros, random up to 1e6, coincident with a real atom}, method, solver (fixed, adaptive, "
        "Pulay, SP2), force mode, optional CIS states; each row is compared with the same molecule computed alone. Separate "
        "sub-checks: same-element transposition; 5-8 step BOMD / XL-BOMD trajectories alone vs batched. non-trivial = >= 2 "
        "different compositions and >= 1 padding slot, or a non-identity permutation / transposition; distinct = case hash")
ASSUMPTIONS = ["tolerances: fixed/adaptive mixing 1e-9 (measured <= 1.2e-10), Pulay 1e-8 + 1e4*eps (its DIIS restart is batch global), "
               "SP2 + 3e2*sp2_tol; CIS energies 20*tolerance",
               "Langevin / surface hopping are not compared path-wise: their noise is drawn from one stream over the whole batch tensor"]

MODES = {"autodiff": None, "analytical": [True], "seminum": [True, "numerical"]}


@st.composite
def _batch_case(draw, md=False):
    method = draw(st.sampled_from(M.METHODS_SP))
    uhf = draw(st.integers(0, 4)) == 0 and not md
    nrow = draw(st.integers(2, 4 if not md else 3))
    rows = []
    for _ in range(nrow):
        kinds = ("radical", "neutral") if uhf else ("neutral", "neutral", "ion")
        kind = draw(st.sampled_from(kinds)) if not md else "neutral"
        rows.append(draw(S.molecule_case(method=method, kinds=(kind,), max_atoms=6 if not md else 5, min_atoms=1 if not md else 2, stretch=False)))
    case = {"rows": rows, "uhf": uhf, "padw": draw(st.integers(0, 3)),
            "pad": draw(st.sampled_from(["zeros", "random", "huge", "coincident"])), "seed": draw(st.integers(0, 10 ** 6))}
    if md:
        case["engine"] = draw(st.sampled_from(["bomd", "xl"]))
        case["steps"] = draw(st.integers(5, 8))
        case["solver"] = {"conv": [1], "sp2": [False], "eps": 1e-9}
        return case
    sol = draw(S.solver(allow_sp2=not uhf, allow_pulay=not uhf, eps_exp=(7, 10)))
    if not uhf and not sol["sp2"][0] and sol["conv"][0] in (0, 1) and draw(st.integers(0, 3)) == 0:
        # finite electronic temperature (Fermi occupations): scf_converger = [kind, alpha, "T_el", T]. Up to 20000 K so that the
        # occupation of the first orbitals above the gap -- and of anything wrongly counted as an orbital -- is not negligible
        T = draw(st.sampled_from([1500.0, 5000.0, 10000.0, 20000.0]))
        sol["conv"] = [sol["conv"][0], sol["conv"][1] if sol["conv"][0] == 0 else 0.0, "T_el", T]
        sol["T_el"] = T
    case["solver"] = sol
    case["mode"] = draw(st.sampled_from(["autodiff", "autodiff", "analytical", "seminum"]))
    if not uhf and all(M.ALL[r["tpl"]]["charge"] == 0 and M.n_ov(r["tpl"]) >= 4 for r in rows) and not sol["sp2"][0] and draw(st.integers(0, 3)) == 0:
        case["cis"] = draw(st.integers(1, 2))
    return case


def _geoms(case):
    out = []
    for mc in case["rows"]:
        Z, x = M.geometry(mc)
        m = M.ALL[mc["tpl"]]
        out.append((list(Z), x, m["charge"], m["mult"]))
    return out


def _assemble(case, geoms, order=None):
    order = list(range(len(geoms))) if order is None else order
    width = max(len(g[0]) for g in geoms) + case.get("padw", 0)
    rng = np.random.default_rng(case["seed"])
    Sx = np.zeros((len(order), width), dtype=np.int64)
    X = np.zeros((len(order), width, 3))
    for b, k in enumerate(order):
        Z, x = geoms[k][0], geoms[k][1]
        n = len(Z)
        Sx[b, :n] = Z
        X[b, :n] = x
        if width > n:
            if case["pad"] == "random":
                X[b, n:] = rng.uniform(-50, 50, size=(width - n, 3))
            elif case["pad"] == "huge":
                X[b, n:] = rng.uniform(-1e6, 1e6, size=(width - n, 3))
            elif case["pad"] == "coincident":
                X[b, n:] = x[rng.integers(0, n, size=width - n)]
    return Sx, X


def _run(case, Sx, X, charges, mult):
    sol = case["solver"]
    ex = {}
    if MODES[case.get("mode", "autodiff")] is not None:
        ex["analytical_gradient"] = list(MODES[case["mode"]])
    if case.get("cis"):
        ex["excited_states"] = {"method": "cis", "n_states": case["cis"], "tolerance": 1e-8}
    return run_sp(Sx, X, method=case["rows"][0]["method"], eps=sol["eps"], conv=sol["conv"], sp2=sol["sp2"], charges=np.array(charges),
                  mult=np.array(mult), uhf=case["uhf"], extra=ex)


def _tol(case):
    sol = case["solver"]
    t = 1e-9
    if sol.get("T_el"):
        # Fermi occupations: alone-vs-batch differences on the unchanged tree do not scale with eps (0.1..130 eps); largest values
        # measured over ~900 generated rows: dE 2e-8, dF 1.1e-6 (PM3 NH4+ distorted by 0.15 A at 5000 K), dq 2e-9. I first adopted
        # 1e-6 from hearsay without calibrating and the check fired at 1.07e-6 on the unchanged tree. 2e-5 keeps a ~20x margin; the
        # seeded occupation-mask defect gives dF = 8e-4, dE = 1.6e-2 at 10000 K.
        t = 2e-5
    if sol["conv"][0] == 2:
        t = 1e-8 + 1e4 * sol["eps"]
    if sol["sp2"][0]:
        t += 3e2 * min(max(sol["sp2"][1], 1e-7), 1e-3)
    return t


class SinglePoint(SubCheck):
    name = "single_point"
    budget = {"quick": 640, "thorough": 15000}
    weight = 3.0

    def strategy(self, tier):
        return _batch_case()

    def oracle(self, case):
        geoms = _geoms(case)
        rng = np.random.default_rng(case["seed"] + 1)
        order = list(rng.permutation(len(geoms)))
        Sx, X = _assemble(case, geoms, order)
        width = Sx.shape[1]
        comps = len({tuple(g[0]) for g in geoms})
        nontrivial = (comps >= 2 and any(len(g[0]) < width for g in geoms)) or order != sorted(order)
        labels = ["method:" + case["rows"][0]["method"], "rows:%d" % len(geoms), "pad:" + case["pad"], "padw:%d" % case["padw"],
                  "uhf:%s" % case["uhf"], "mode:" + case["mode"]] + S.solver_labels(case["solver"])
        labels += ["T_el:%g" % case["solver"]["T_el"]] if case["solver"].get("T_el") else []
        labels += ["cis"] if case.get("cis") else []
        labels += ["ion"] if any(g[2] for g in geoms) else []
        try:
            rb = _run(case, Sx, X, [geoms[k][2] for k in order], [geoms[k][3] for k in order])
        except Exception as e:
            if case.get("cis") and len({tuple(g[0]) for g in geoms}) == 1 and any(len(g[0]) < width for g in geoms) and "invalid for input of size" in str(e):
                # recorded finding: the homogeneous excited-state path (rcis_batch.makeA_pi_batched and friends) computes the
                # number of pairs per molecule from molsize, i.e. assumes that no padding atoms exist
                return Outcome.fail("excited_homogeneous_batch_with_padding_atoms_crashes", f"{type(e).__name__}: {str(e)[:120]} (species rows {Sx.tolist()})", labels, nontrivial)
            return Outcome.fail(f"exception_batch:{type(e).__name__}", f"{type(e).__name__}: {str(e)[:200]}", labels, nontrivial)
        ncb = notconv(rb)
        Fb = tonp(rb.mol.force)
        # padding: exactly zero force, zero charge, coordinates untouched
        for b, k in enumerate(order):
            n = len(geoms[k][0])
            if width > n:
                if np.any(Fb[b, n:] != 0.0):
                    return Outcome.fail("padding_force_nonzero", f"row {b}: force on padding atoms {np.abs(Fb[b, n:]).max():.3e}", labels, nontrivial)
                if np.any(tonp(rb.mol.q[b])[n:] != 0.0):
                    return Outcome.fail("padding_charge_nonzero", f"row {b}: charge on padding atoms", labels, nontrivial)
        tol = _tol(case)
        worst = {}
        for b, k in enumerate(order):
            Z, x, Q, mult = geoms[k]
            n = len(Z)
            try:
                ra = _run(case, np.array([Z]), np.array([x]), [Q], [mult])
            except Exception as e:
                return Outcome.fail(f"exception_alone:{type(e).__name__}", f"{type(e).__name__}: {str(e)[:200]}", labels, nontrivial)
            if notconv(ra)[0] or ncb[b]:
                if bool(notconv(ra)[0]) != bool(ncb[b]):
                    labels.append("convergence_flag_differs")
                continue
            norb = sum(1 if z == 1 else 4 for z in Z)
            quantities = {
                "Etot": (float(ra.mol.Etot[0]), float(rb.mol.Etot[b])),
                "Hf": (float(ra.mol.Hf[0]), float(rb.mol.Hf[b])),
                "force": (tonp(ra.mol.force[0])[:n], Fb[b, :n]),
                "q": (tonp(ra.mol.q[0])[:n], tonp(rb.mol.q[b])[:n]),
            }
            ea, eb = tonp(ra.mol.e_mo[0]), tonp(rb.mol.e_mo[b])
            if ea.ndim == 1:
                quantities["e_mo"] = (ea[:norb], eb[:norb])
            else:
                quantities["e_mo"] = (ea[:, :norb], eb[:, :norb])
            if ra.mol.dipole is not None and torch.is_tensor(ra.mol.dipole):
                quantities["dipole"] = (tonp(ra.mol.dipole[0]), tonp(rb.mol.dipole[b]))
            if case.get("cis"):
                ca, cb = tonp(ra.mol.cis_energies[0]), tonp(rb.mol.cis_energies[b])
                kk = min(len(ca), len(cb), case["cis"])
                quantities["cis"] = (ca[:kk], cb[:kk])
            for name, (va, vb) in quantities.items():
                d = float(np.abs(np.asarray(va) - np.asarray(vb)).max())
                t = tol * (10.0 if name in ("force", "e_mo") else 1.0) if case["solver"]["conv"][0] == 2 or case["solver"]["sp2"][0] else tol
                if name == "force" and case["mode"] != "autodiff":
                    # the analytical and semi-numerical evaluators differentiate the overlaps by a delta=1e-5 central
                    # difference: round-off ~1e-9..1e-7 that depends on summation order (largest value measured on the
                    # unchanged tree 8.9e-8). The first version used the autodiff bound 1e-9 and fired at 1.4e-9.
                    t = max(t, 1e-6)
                if name == "cis":
                    t = max(t, 2e-7)
                worst[name] = max(worst.get(name, 0.0), d)
                if d > t and name == "cis" and float(np.min(va)) <= 1e-6 and len(geoms) > 1 and len({tuple(g[0]) for g in geoms}) > 1:
                    # recorded finding (root cause read in rcis_new.get_subspace_eig_any_batched): the heterogeneous Davidson
                    # zero-pads the subspace matrices of the smaller molecules and discards the first `zero_pad` eigenvalues
                    # assuming the padding zeros are the lowest; a true excitation energy <= 0 (CIS-unstable reference)
                    # sorts below them, is discarded, and a padding zero is returned in its place
                    return Outcome.fail("hetero_cis_nonpositive_root_replaced_by_padding_zero",
                                        f"row {b} ({case['rows'][k]['tpl']}): CIS energies alone {np.asarray(va).round(5).tolist()} vs in the heterogeneous batch {np.asarray(vb).round(5).tolist()}", labels, nontrivial)
                if d > t:
                    dE = abs(quantities["Etot"][0] - quantities["Etot"][1])
                    if case["solver"]["conv"][0] == 2 and dE > 1e-4:
                        # recorded finding: Pulay's batch-global DIIS restart sends a row to a different SCF solution
                        return Outcome.fail("pulay_batch_other_scf_solution", f"row {b} ({case['rows'][k]['tpl']}): Etot alone {quantities['Etot'][0]:.6f} vs in batch {quantities['Etot'][1]:.6f} "
                                            f"(flagged converged both times), batch {[case['rows'][j]['tpl'] for j in order]}", labels, nontrivial)
                    fam = "finiteT" if case["solver"].get("T_el") else "pulay" if case["solver"]["conv"][0] == 2 else ("sp2" if case["solver"]["sp2"][0] else ("uhf" if case["uhf"] else "rhf"))
                    return Outcome.fail(f"row_differs_from_alone:{name}:{fam}", f"row {b} ({case['rows'][k]['tpl']}) {name}: max |alone - in batch| = {d:.3e} > {t:.1e}; "
                                        f"batch {[case['rows'][j]['tpl'] for j in order]}, pad {case['pad']}/{case['padw']}", labels, nontrivial, **{name: d})
        return Outcome.ok(nontrivial, labels, **{"d_" + k: v for k, v in worst.items()})

    def simplify(self, case):
        if len(case["rows"]) > 2:
            for i in range(len(case["rows"])):
                yield dict(case, rows=case["rows"][:i] + case["rows"][i + 1:])
        if case["padw"]:
            yield dict(case, padw=0)
        if case["pad"] != "zeros":
            yield dict(case, pad="zeros")
        if case.get("cis"):
            yield {k: v for k, v in case.items() if k != "cis"}
        if case["mode"] != "autodiff":
            yield dict(case, mode="autodiff")
        for i, r in enumerate(case["rows"]):
            if r.get("amp"):
                rr = dict(r, amp=0.0)
                rr.pop("disp", None)
                yield dict(case, rows=case["rows"][:i] + [rr] + case["rows"][i + 1:])


@st.composite
def _swap_case(draw):
    method = draw(st.sampled_from(M.METHODS_SP))
    pool = [t for t in M.names(method, ("neutral", "ion"), 7, 3) if len(M.ALL[t]["Z"]) - len(set(M.ALL[t]["Z"])) >= 1]
    tpl = draw(st.sampled_from(pool))
    Z = M.ALL[tpl]["Z"]
    n = len(Z)
    same = [(i, j) for i in range(n) for j in range(i + 1, n) if Z[i] == Z[j]]
    mol = {"method": method, "tpl": tpl, "amp": 0.1, "disp": draw(st.lists(S.q3, min_size=3 * n, max_size=3 * n))}
    return {"mol": mol, "swap": list(draw(st.sampled_from(same))), "solver": draw(S.solver(allow_sp2=False, eps_exp=(8, 10))),
            "mode": draw(st.sampled_from(["autodiff", "analytical", "seminum"]))}


class Transposition(SubCheck):
    name = "transposition"
    budget = {"quick": 500, "thorough": 12000}
    weight = 1.5

    def strategy(self, tier):
        return _swap_case()

    def oracle(self, case):
        Z, x = M.geometry(case["mol"])
        Q = M.ALL[case["mol"]["tpl"]]["charge"]
        i, j = case["swap"]
        perm = list(range(len(Z)))
        perm[i], perm[j] = perm[j], perm[i]
        labels = ["method:" + case["mol"]["method"], "mode:" + case["mode"]] + S.solver_labels(case["solver"])
        c = {"rows": [case["mol"]], "uhf": False, "solver": case["solver"], "mode": case["mode"]}
        try:
            a = _run(c, np.array([Z]), np.array([x]), [Q], [1])
            b = _run(c, np.array([Z]), np.array([x[perm]]), [Q], [1])
        except Exception as e:
            return Outcome.fail(f"exception:{type(e).__name__}", f"{type(e).__name__}: {str(e)[:200]}", labels)
        if notconv(a)[0] or notconv(b)[0]:
            return Outcome.inconclusive("scf_not_converged", labels)
        tol = _tol(case)
        worst = {}
        for name in ("Etot", "Hf", "Eelec", "Enuc"):
            d = abs(float(getattr(a.mol, name)[0]) - float(getattr(b.mol, name)[0]))
            worst[name] = d
            if d > tol + 1e-12 * abs(float(getattr(a.mol, name)[0])):
                return Outcome.fail(f"transposition_changes_scalar:{name}", f"{name} changes by {d:.3e} when atoms {i},{j} (both Z={Z[i]}) are exchanged", labels, True)
        for name, t in (("force", max(10 * tol, 1e-6 if case["mode"] != "autodiff" else 0.0)), ("q", tol)):
            va, vb = tonp(getattr(a.mol, name)[0]), tonp(getattr(b.mol, name)[0])
            d = float(np.abs(va[perm] - vb).max())
            worst[name] = d
            if d > t:
                return Outcome.fail(f"transposition_not_a_permutation_of:{name}", f"{name}: max |permuted(alone) - relabelled| = {d:.3e}", labels, True)
        d = float(np.abs(np.sort(tonp(a.mol.e_mo[0])) - np.sort(tonp(b.mol.e_mo[0]))).max())
        if d > 10 * tol:
            return Outcome.fail("transposition_changes_orbital_energies", f"orbital energies change by {d:.3e}", labels, True)
        return Outcome.ok(True, labels, **worst)


def _md_run(case, Sx, X, charges, vel, workdir, tag, molid):
    from seqm.MolecularDynamics import XL_BOMD, Molecular_Dynamics_Basic

    s = settings(case["rows"][0]["method"], case["solver"]["eps"], (1,), (False,))
    prefix = os.path.join(workdir, tag)
    out = {"molid": molid, "prefix": prefix, "print every": 0, "xyz": 0, "checkpoint every": 0,
           "h5": {"data": 1, "coordinates": 1, "velocities": 1, "forces": 1}}
    with silence():
        mol = Molecule(Constants(), s, torch.tensor(X), torch.tensor(Sx), charges=torch.tensor(charges))
        mol.velocities = torch.tensor(vel)
        if case["engine"] == "xl":
            md = XL_BOMD(xl_bomd_params={"k": 5}, seqm_parameters=s, Temp=300.0, timestep=0.4, output=out)
        else:
            md = Molecular_Dynamics_Basic(seqm_parameters=s, Temp=300.0, timestep=0.4, output=out)
        md.run(mol, steps=case["steps"], remove_com=None, seed=1)
    res = {}
    for m in molid:
        with h5py.File(f"{prefix}.{m}.h5", "r") as f:
            res[m] = {k: f[k][...] for k in ("coordinates/values", "velocities/values", "forces/values", "data/thermo/Ep", "data/thermo/Ek")}
    return res, tonp(mol.coordinates)


class MD(SubCheck):
    name = "md"
    budget = {"quick": 64, "thorough": 1200}
    weight = 8.0

    def strategy(self, tier):
        return _batch_case(md=True)

    def oracle(self, case):
        geoms = _geoms(case)
        Sx, X = _assemble(case, geoms)
        width = Sx.shape[1]
        labels = ["engine:" + case["engine"], "rows:%d" % len(geoms), "pad:" + case["pad"], "padw:%d" % case["padw"]]
        rng = np.random.default_rng(case["seed"] + 7)
        # explicit velocities with zero linear and angular momentum per molecule (the code strips rigid-body components of
        # supplied velocities -- C13's subject -- so they are removed here to make 'the same input' well defined)
        vel = np.zeros_like(X)
        for b, g in enumerate(geoms):
            n = len(g[0])
            mass = np.array([_MASS[z] for z in g[0]])
            v = rng.normal(size=(n, 3)) * 0.01 / np.sqrt(mass)[:, None]
            v -= (mass[:, None] * v).sum(0) / mass.sum()
            r = g[1] - (mass[:, None] * g[1]).sum(0) / mass.sum()
            L = (mass[:, None] * np.cross(r, v)).sum(0)
            I = (mass * (r * r).sum(1)).sum() * np.eye(3) - (mass[:, None, None] * r[:, :, None] * r[:, None, :]).sum(0)
            w = np.linalg.pinv(I) @ L
            v -= np.cross(np.broadcast_to(w, r.shape), r)
            vel[b, :n] = v
        wd = tempfile.mkdtemp(prefix="c05_", dir=os.getcwd())
        try:
            try:
                batch, xend = _md_run(case, Sx, X, [g[2] for g in geoms], vel, wd, "batch", list(range(len(geoms))))
            except Exception as e:
                return Outcome.fail(f"exception_md_batch:{type(e).__name__}", f"{type(e).__name__}: {str(e)[:200]}", labels)
            # (A first version also demanded that padding coordinates are bitwise unchanged after MD. C05's statement does
            # not say that -- it demands that a molecule's results do not depend on what is stored there, which is what the
            # comparison below decides. "Padding atoms stay at rest" belongs to C13 and is examined there. Removed as
            # over-reach after it fired on the unchanged tree: the rotation removal gives far-away padding slots a velocity.)
            worst = 0.0
            for b, g in enumerate(geoms):
                n = len(g[0])
                try:
                    alone, _ = _md_run(case, Sx[b:b + 1, :n], X[b:b + 1, :n], [g[2]], vel[b:b + 1, :n], wd, "alone%d" % b, [0])
                except Exception as e:
                    return Outcome.fail(f"exception_md_alone:{type(e).__name__}", f"{type(e).__name__}: {str(e)[:200]}", labels)
                for key in alone[0]:
                    d = float(np.abs(alone[0][key] - batch[b][key]).max())
                    worst = max(worst, d)
                    if d > 1e-8:
                        return Outcome.fail(f"md_trajectory_depends_on_batch:{case['engine']}", f"molecule {b} ({case['rows'][b]['tpl']}) {key}: alone vs batched differ by {d:.3e} after <= {case['steps']} steps",
                                            labels, True, md_diff=d)
            return Outcome.ok(len({tuple(g[0]) for g in geoms}) >= 2, labels, md_diff=worst)
        finally:
            shutil.rmtree(wd, ignore_errors=True)


_MASS = {1: 1.008, 3: 6.94, 4: 9.012, 5: 10.81, 6: 12.011, 7: 14.007, 8: 15.999, 9: 18.998, 11: 22.99, 12: 24.305, 13: 26.982, 14: 28.085,
         15: 30.974, 16: 32.06, 17: 35.45}

SUBCHECKS = [SinglePoint(), Transposition(), MD()]
