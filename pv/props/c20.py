"""C20 -- the built-in steepest-descent optimiser descends and stops truthfully (DESIGN 3/C20).

A harness wrapper around the repository's Geometry_Optimization_SD.onestep records, per iteration, the coordinates before the
update, the force and the energy it returned. Everything else (onestep, run, stop logic, messages) is the repository's code.
"""
import re

import numpy as np
from hypothesis import strategies as st

from .. import molecules as M
from .. import strategies as S
from ..core import Outcome, SubCheck
from ..seqm_api import Constants, Molecule, pad_batch, run_sp, settings, silence, tonp, torch

PROPERTY = "C20"
LEVEL = "exploration"
RULE = ("Hypothesis draws 1-2 small templates distorted by 0.05-0.2 A (zero-padded batch), step factor alpha in [1e-4, 2e-2], force "
        "tolerance, evaluation cap in {1..40} incl. caps below / equal to / above the number of evaluations needed (the 'equal' case is "
        "constructed from a first run), method, solver. non-trivial = >= 3 iterations; classes converged / capped / cap == needed; "
        "distinct = case hash")
ASSUMPTIONS = ["'sufficiently small step factor' is made domain free: an energy increase at alpha is a violation only if it also occurs at alpha/4 and alpha/16 from the same start",
               "update and force identities 1e-10; energies compared at scf_eps 1e-9"]


@st.composite
def _case(draw):
    method = draw(st.sampled_from(["AM1", "PM3", "MNDO"]))
    pool = [t for t in M.names(method, ("neutral",), 5, 2) if M.n_orbitals(t) <= 16]
    rows = []
    for _ in range(draw(st.integers(1, 2))):
        tpl = draw(st.sampled_from(pool))
        n = len(M.ALL[tpl]["Z"])
        rows.append({"method": method, "tpl": tpl, "amp": draw(st.sampled_from([0.05, 0.1, 0.2])), "disp": draw(st.lists(S.q3, min_size=3 * n, max_size=3 * n))})
    case = {"rows": rows, "padw": draw(st.integers(0, 1)), "alpha": draw(st.sampled_from([1e-4, 1e-3, 4e-3, 1e-2, 2e-2])),
            "tol": draw(st.sampled_from([1e-3, 0.05, 0.3, 1.0])), "cap": draw(st.sampled_from([1, 2, 3, 5, 10, 20, 40])),
            "conv": draw(st.sampled_from([[1], [0, 0.2], [2]])), "cap_equal_needed": draw(st.integers(0, 3)) == 0}
    if len(rows) > 1 and case["conv"] == [2]:
        # Excluded by construction (counted through a label): Pulay's DIIS restart is batch global (recorded C05 finding), so a
        # row can land on another SCF solution (SCl2 next to SO3: 5.4 eV) or differ at convergence level, and the optimiser
        # inherits it -- the first C20 run reported exactly these two consequences. Pulay stays in for single molecules.
        case["conv"] = [1]
        case["pulay_in_batch_remapped"] = True
    return case


def _opt(case, geoms, alpha, cap, rows=None):
    from seqm.MolecularDynamics import Geometry_Optimization_SD

    rows = list(range(len(geoms))) if rows is None else rows
    width = max(len(g[0]) for g in geoms) + case["padw"]
    Sx, X = pad_batch([geoms[k] for k in rows], width=width)
    if case["padw"]:
        for b, k in enumerate(rows):
            X[b, len(geoms[k][0]):] = 7.5 + b          # recognisable padding coordinates
    s = settings(case["rows"][0]["method"], 1e-9, case["conv"], (False,))
    hist = []
    with silence() as buf:
        mol = Molecule(Constants(), s, torch.tensor(X), torch.tensor(Sx))
        opt = Geometry_Optimization_SD(s, alpha=alpha, force_tol=case["tol"], max_evl=cap)
        orig = opt.onestep

        def rec(molecule, *a, **k):
            before = tonp(molecule.coordinates).copy()
            f, e = orig(molecule, *a, **k)
            nc = tonp(torch.as_tensor(opt.esdriver.notconverged)).astype(bool).copy()
            hist.append({"x": before, "F": tonp(f).copy(), "E": tonp(e).copy(), "after": tonp(molecule.coordinates).copy(), "nc": nc})
            return f, e

        opt.onestep = rec
        ret = opt.run(mol)
    return hist, ret, buf.getvalue(), X, Sx


class Optimiser(SubCheck):
    name = "optimiser"
    budget = {"quick": 96, "thorough": 4000}
    weight = 5.0

    def strategy(self, tier):
        return _case()

    def oracle(self, case):
        geoms = [M.geometry(r) for r in case["rows"]]
        geoms = [(list(z), x) for z, x in geoms]
        labels = ["method:" + case["rows"][0]["method"], "rows:%d" % len(geoms), "padw:%d" % case["padw"], "alpha:%g" % case["alpha"], "conv:%s" % case["conv"][0]]
        if case.get("pulay_in_batch_remapped"):
            labels.append("excluded_by_construction:pulay_in_batch")
        cap = case["cap"]
        try:
            if case["cap_equal_needed"]:
                h0, _, _, _, _ = _opt(case, geoms, case["alpha"], 40)
                need = len(h0)
                if need < 40:
                    cap = need
                    labels.append("cap==needed")
            hist, ret, out, X0, Sx = _opt(case, geoms, case["alpha"], cap)
        except Exception as e:
            return Outcome.fail(f"exception:{type(e).__name__}", f"{type(e).__name__}: {str(e)[:200]}", labels)
        n_it = len(hist)
        nontrivial = n_it >= 3
        width = Sx.shape[1]
        real = Sx > 0
        # update rule with the force OF x_i, padding never moves
        for i, h in enumerate(hist):
            d = float(np.abs((h["after"] - h["x"]) - case["alpha"] * h["F"])[real].max())
            if d > 1e-10:
                return Outcome.fail("update_rule", f"iteration {i}: x_(i+1) - x_i differs from alpha*F_i by {d:.3e}", labels, nontrivial)
            if (~real).any() and np.any(h["after"][~real] != X0[~real]):
                return Outcome.fail("padding_atoms_moved", f"iteration {i}: padding coordinates changed by {np.abs(h['after'][~real] - X0[~real]).max():.3e}", labels, nontrivial)
            if i in (0, n_it // 2):
                for b in range(len(geoms)):
                    nat = len(geoms[b][0])
                    r = run_sp([geoms[b][0]], [h["x"][b, :nat]], method=case["rows"][0]["method"], eps=1e-10, conv=(1,))
                    from ..seqm_api import notconv as _nc

                    if h["nc"][b] or _nc(r)[0]:
                        continue        # a large step factor can produce geometries whose SCF does not converge: nothing to compare
                    dF = float(np.abs(tonp(r.mol.force[0])[:nat] - h["F"][b, :nat]).max())
                    dE = abs(float(r.mol.Etot[0]) - float(h["E"][b]))
                    if dF > 2e-5 or dE > 2e-6:
                        return Outcome.fail("force_or_energy_not_of_current_geometry", f"iteration {i}, molecule {b}: the force/energy used differ from a fresh single point at x_i by {dF:.3e} eV/A / {dE:.3e} eV (stale?)", labels, nontrivial)
        # stop condition: first i with max|F_i| <= tol, or the cap
        fmax = [float(np.abs(h["F"]).max()) for h in hist]
        first = next((i for i, f in enumerate(fmax) if f <= case["tol"]), None)
        want_n = min(cap, first + 1) if first is not None else cap
        if n_it != want_n:
            return Outcome.fail("stop_condition", f"ran {n_it} evaluations; max|F| per evaluation {['%.3g' % f for f in fmax[:8]]}, tol {case['tol']}, cap {cap}: expected {want_n}", labels, nontrivial)
        reached = first is not None and first + 1 <= cap
        labels.append("class:" + ("converged" if reached else "capped"))
        # the optimiser's own verdict is its last output line; the captured text also holds SCF-level messages such as
        # "not converged:  tensor(0)" printed inside an iteration (a substring test on the whole text was a false alarm)
        last = [ln for ln in out.strip().splitlines() if ln.strip()][-1] if out.strip() else ""
        said_not = last.startswith("not converged within")
        said_conv = last.startswith("converged with")
        if reached and (said_not or not said_conv):
            return Outcome.fail("reached_tolerance_reported_not_converged", f"max|F| = {fmax[-1]:.3g} <= tol {case['tol']} at evaluation {n_it} (cap {cap}) but the run reports: {out.strip().splitlines()[-1][:80]!r}", labels, nontrivial)
        if not reached and (said_conv or not said_not):
            return Outcome.fail("cap_hit_reported_converged", f"cap {cap} hit with max|F| = {fmax[-1]:.3g} > tol {case['tol']} but the run reports: {out.strip().splitlines()[-1][:80]!r}", labels, nontrivial)
        # returned values are those of the last geometry evaluated
        ferr, eerr = float(ret[0]), float(ret[1])
        if abs(ferr - fmax[-1]) > 1e-12 * max(1.0, fmax[-1]):
            return Outcome.fail("returned_force_not_of_last_geometry", f"returned {ferr!r}, max|F_last| = {fmax[-1]!r}", labels, nontrivial)
        prevE = hist[-2]["E"] if n_it >= 2 else np.zeros_like(hist[-1]["E"])
        want_e = float((hist[-1]["E"] - prevE).sum() / len(geoms))
        if abs(eerr - want_e) > 1e-9 * max(1.0, abs(want_e)):
            return Outcome.fail("returned_energy_change_not_of_last_step", f"returned dE {eerr!r}, E_last - E_prev (batch mean) = {want_e!r}", labels, nontrivial)
        # descent (domain-free): an increase at alpha counts only if it persists at alpha/4 and alpha/16
        E = np.array([h["E"] for h in hist])
        inc = np.diff(E, axis=0) if n_it >= 2 else np.zeros((0, len(geoms)))
        if inc.size and float(inc.max()) > 1e-7:
            persists = True
            for div in (4.0, 16.0):
                h2, _, _, _, _ = _opt(case, geoms, case["alpha"] / div, min(cap, 6))
                E2 = np.array([h["E"] for h in h2])
                if E2.shape[0] < 2 or float(np.diff(E2, axis=0).max()) <= 1e-7:
                    persists = False
                    break
            if persists:
                return Outcome.fail("energy_increases_for_every_step_factor", f"energy rises by {float(inc.max()):.3e} eV at alpha={case['alpha']} and still at alpha/4 and alpha/16", labels, nontrivial)
            labels.append("step_too_large_for_descent")
        # a molecule's path does not depend on the other molecules of the batch (common prefix)
        if len(geoms) > 1:
            for b in range(len(geoms)):
                h1, _, _, _, _ = _opt(case, geoms, case["alpha"], cap, rows=[b])
                nat = len(geoms[b][0])
                for i in range(min(len(h1), n_it)):
                    d = float(np.abs(h1[i]["x"][0, :nat] - hist[i]["x"][b, :nat]).max())
                    if d > 1e-8:
                        return Outcome.fail("path_depends_on_batch_mates", f"molecule {b}, iteration {i}: geometry alone vs in batch differs by {d:.3e} A", labels, nontrivial)
        return Outcome.ok(nontrivial, labels, iterations=n_it)


SUBCHECKS = [Optimiser()]
