"""C17 -- surface hopping preserves norm, energy and per-trajectory isolation (DESIGN 3/C17).

Unit level on real SurfaceHoppingDynamics objects built without electronic structure, the way the repository's own
tests/test_nonadiabatic.py builds them (subclass that skips __init__ and sets the private state). The methods under test
are the repository's: _propagate_electronic, _attempt_hop, _rescale_velocity_along_nac, _detect_crossings,
_after_electronic_update. The only hooks replaced are the three that the repository's TullyFSSH example also overrides
(_compute_NACR_for_hop, _recompute_active_force) plus torch.rand / torch.cumsum wrapped for the duration of one call to fix
the random draw and to read the hop probabilities the code actually uses.
"""
import contextlib
import itertools
import math
from types import SimpleNamespace

import numpy as np
from hypothesis import strategies as st

from ..core import Outcome, SubCheck
from ..seqm_api import torch

HBAR_EV_FS = 0.6582119569  # eV fs (CODATA); only used to decide where the order test is applicable

PROPERTY = "C17"
LEVEL = "exploration"
RULE = ("Hypothesis draws n_states 2..8, batch 1..6 with mixed active states, energies with gaps 1e-4..5 eV, antisymmetric "
        "NACT incl. spikes to 100/fs and old->new jumps, dt 0.01..1 fs, sub-steps None|1..80; velocity / coupling-vector / "
        "mass fields incl. zeros, exact v.d = 0, padding atoms, dE of both signs; overlap matrices = signed permutations of "
        "every cycle type inside the +-2 window times a small rotation. non-trivial = non-zero coupling (norm), a hop was "
        "attempted (rescale/update), permutation with a cycle of length >= 2 (crossings); distinct = distinct case hash")
ASSUMPTIONS = ["objects are constructed like tests/test_nonadiabatic.py does (private attributes set by hand)",
               "kinetic energy uses the repository's KINETIC_ENERGY_SCALE (the constant itself is C08's subject)",
               "a frustrated hop may decohere the amplitudes when decohere_on_hop is set: only active state and velocities "
               "are required to be untouched"]


def _mods():
    import seqm.NonadiabaticDynamics as ND
    from seqm.MolecularDynamics import CONSTANTS

    return ND, CONSTANTS


def make_fssh(nmol, nstates, dt, substeps, active, decohere=True):
    ND, _ = _mods()

    class Dummy(ND.SurfaceHoppingDynamics):
        def __init__(self):
            pass

    d = Dummy()
    d.timestep = float(dt)
    d.damp = None
    d._electronic_substeps = substeps
    d._nstates = nstates
    d._amp_phase = torch.zeros((nmol, nstates, 3), dtype=torch.float64)
    d._current_potential = None
    d._hop_integral = None
    d._apc_window = 2
    d._detect_crossings_flag = True
    d._eye_cache = {}
    d._arange_cache = {}
    d._perm_cost_buffers = {}
    d._trivial_zero_buffers = {}
    d._trivial_swap_buffers = {}
    d._hop_buffer = None
    d._active_states = torch.tensor(active, dtype=torch.long)
    d.post_hop_holdoff = torch.zeros((nmol,), dtype=torch.long)
    d.prev_state = torch.full((nmol,), -1, dtype=torch.long)
    d._decohere_on_hop = decohere
    d._trivial_crossing_mask = None
    d.hop_log = []
    d.step_offset = 0
    return d


def set_amplitudes(d, amps):
    """amps: [nmol][nstates][2] (re, im), normalised per trajectory"""
    a = torch.tensor(amps, dtype=torch.float64)
    nrm = torch.sqrt((a ** 2).sum(dim=(1, 2), keepdim=True)).clamp(min=1e-30)
    a = a / nrm
    d._amp_phase[..., 0] = a[..., 0]
    d._amp_phase[..., 1] = a[..., 1]
    d._amp_phase[..., 2] = 0.0


def antisym(vals, n, scale):
    D = np.zeros((n, n))
    k = 0
    for i in range(n):
        for j in range(i + 1, n):
            D[i, j] = vals[k] * scale
            D[j, i] = -D[i, j]
            k += 1
    return D


u1 = st.integers(-1000, 1000).map(lambda i: i / 1000.0)


# ------------------------------------------------------------------ norm
@st.composite
def _norm_case(draw):
    n = draw(st.integers(2, 8))
    B = draw(st.integers(1, 4))
    npair = n * (n - 1) // 2
    kind = draw(st.sampled_from(["zero", "small", "moderate", "spike", "jump"]))
    scale = {"zero": 0.0, "small": 0.05, "moderate": 1.0, "spike": 100.0, "jump": 3.0}[kind]
    case = {"n": n, "B": B, "kind": kind, "dt": draw(st.sampled_from([0.01, 0.05, 0.1, 0.25, 0.5, 1.0])),
            "sub": draw(st.sampled_from([None, 1, 2, 4, 8, 16, 40])),
            "gap_exp": draw(st.integers(-4, 0)),
            "e": [[draw(u1) for _ in range(n)] for _ in range(B)],
            "de": [[draw(u1) * 0.05 for _ in range(n)] for _ in range(B)],
            "d_old": [[draw(u1) for _ in range(npair)] for _ in range(B)],
            "d_new": [[draw(u1) for _ in range(npair)] for _ in range(B)],
            "amp": [[[draw(u1), draw(u1)] for _ in range(n)] for _ in range(B)],
            "scale": scale,
            # per-trajectory multiplier: lets one member sit on a coupling spike while a neighbour is ordinary
            "rs": [draw(st.sampled_from([1.0, 1.0, 0.02, 30.0])) for _ in range(B)]}
    for b in range(B):
        if all(abs(v) < 1e-6 for pr in case["amp"][b] for v in pr):
            case["amp"][b][0][0] = 1.0
    return case


def _caches(case, rows=None):
    n, B = case["n"], case["B"]
    rows = list(range(B)) if rows is None else rows
    gap = 5.0 * 10.0 ** case["gap_exp"]
    e0 = np.array([[gap * i + 0.3 * gap * case["e"][b][i] for i in range(n)] for b in rows])
    e1 = e0 + gap * np.array([case["de"][b] for b in rows])
    rs = case.get("rs") or [1.0] * case["B"]
    # effective coupling scale per trajectory, capped at the 100/fs spike magnitude the property quantifies over (beyond
    # that a user-forced small sub-step count makes explicit RK4 overflow to inf/NaN, which is outside the stated domain)
    sc = [min(case["scale"] * rs[b], 100.0) for b in range(case["B"])]
    Dold = np.array([antisym(case["d_old"][b], n, sc[b]) for b in rows])
    if case["kind"] == "jump":
        Dnew = np.array([antisym(case["d_new"][b], n, sc[b]) for b in rows])
    else:
        Dnew = Dold + 0.1 * np.array([antisym(case["d_new"][b], n, sc[b]) for b in rows])
    t = lambda a: torch.tensor(a, dtype=torch.float64)  # noqa: E731
    return {"energies": t(e0), "nac_dot": t(Dold)}, {"energies": t(e1), "nac_dot": t(Dnew)}


def _phys(a):
    return (a[..., 0] + 1j * a[..., 1]) * torch.exp(1j * a[..., 2])


def _propagate(case, sub, rows=None):
    rows = list(range(case["B"])) if rows is None else rows
    d = make_fssh(len(rows), case["n"], case["dt"], sub, [0] * len(rows))
    set_amplitudes(d, [case["amp"][b] for b in rows])
    co, cn = _caches(case, rows)
    d._propagate_electronic(co, cn, substeps=sub)
    a = d._amp_phase.clone()
    norm = (a[..., 0] ** 2 + a[..., 1] ** 2).sum(dim=1)
    return d, a, norm.numpy()


class Norm(SubCheck):
    name = "norm"
    budget = {"quick": 4800, "thorough": 200000}
    weight = 1.0

    def strategy(self, tier):
        return _norm_case()

    def oracle(self, case):
        labels = ["kind:" + case["kind"], "n:%d" % case["n"], "sub:%s" % case["sub"], "B:%d" % case["B"]]
        sub = case["sub"]
        try:
            d, a, norm = _propagate(case, sub)
        except Exception as e:
            return Outcome.fail(f"exception:{type(e).__name__}", f"{type(e).__name__}: {e}", labels)
        if not np.isfinite(norm).all():
            return Outcome.fail("nonfinite_amplitudes", "non-finite amplitudes after propagation", labels)
        defect = float(np.abs(norm - 1.0).max())
        nontrivial = case["scale"] > 0
        if case["scale"] == 0.0:
            if defect > 1e-13:
                return Outcome.fail("norm_zero_coupling", f"|norm-1| = {defect:.3e} with zero coupling", labels, False)
            return Outcome.ok(False, labels, defect0=defect)
        if sub is None:
            # Adaptive sub-stepping never uses fewer than its base of 8 sub-steps and adds more for coupling spikes, so
            # it must be at least as accurate as a fixed count of 8. Measured on the amplitude error against a fine
            # reference (a well-behaved observable, see below); no absolute constant is involved. (An earlier version
            # asserted |norm-1| < 1e-6 for chi <= 1: that constant had been calibrated on small gaps only; with 5 eV gaps
            # the interaction-picture phases advance ~1 rad per sub-step and RK4's own error is 4e-6. Oracle over-reach,
            # corrected -- the code is right.)
            _, a_ad, _ = _propagate(case, None)
            _, a_8, _ = _propagate(case, 8)
            _, a_ref, _ = _propagate(case, 256)
            e_ad = float((_phys(a_ad) - _phys(a_ref)).abs().max())
            e_8 = float((_phys(a_8) - _phys(a_ref)).abs().max())
            if not (np.isfinite(e_8) and e_8 < 1e-1):
                return Outcome.ok(True, labels + ["adaptive_reference_unresolved"], defect_adaptive=defect)
            if e_ad > 1.5 * e_8 + 1e-12:
                return Outcome.fail("adaptive_substeps_less_accurate_than_base", f"adaptive sub-stepping error {e_ad:.3e} > fixed 8 sub-steps {e_8:.3e}", labels, True)
            return Outcome.ok(True, labels, defect_adaptive=defect, adaptive_gain=(e_8 / max(e_ad, 1e-300)) if e_ad > 1e-12 else 1.0)
        # Accuracy order of the integrator, measured on the physical coefficients u = (x+iy)exp(i theta) against a 16x
        # finer reference. (The first version of this oracle took the ratio of the scalar norm defect per doubling; that
        # observable changes sign and nearly cancels at individual sub-step counts -- ratios between 0.1 and 260 on the
        # unchanged tree -- so it cannot decide the order per case. The amplitude error has no such cancellation: on the
        # unchanged tree the ratio per doubling is 16.0-16.5 in the median and >= 13.0 for >= 4 sub-steps in every
        # coupling regime, the signature of a 4th-order scheme. Second order would give 4, an inconsistent scheme ~1.)
        # The order is an asymptotic statement: it is judged only where the sub-step resolves the fastest phase,
        # y = (|D|_inf + energy span / hbar) * dt_sub <= 1 rad; the sub-step count is raised (x2, up to 512) until it does.
        # (Gating on the error magnitude instead let through an 8-state / 37 eV / dt = 1 fs case at 14 rad per sub-step,
        # ratio 4.0; refined, the same case gives 16.83, 16.17, 16.03, 16.00. Calibration with this gate, 6300 coupled
        # cases: ratio min 12.25, 1st percentile 13.4, median 16.05, max 30.4.)
        co_, cn_ = _caches(case)
        dn = max(float(co_["nac_dot"].abs().sum(dim=2).max()), float(cn_["nac_dot"].abs().sum(dim=2).max()))
        en = np.concatenate([co_["energies"].numpy(), cn_["energies"].numpy()], axis=1)
        wmax = float((en.max(axis=1) - en.min(axis=1)).max()) / HBAR_EV_FS
        so = 4
        while (dn + wmax) * case["dt"] / so > 1.0 and so < 512:
            so *= 2
        if (dn + wmax) * case["dt"] / so > 1.0:
            return Outcome.ok(nontrivial, labels + ["order_unresolved"], defect=defect)
        _, a_s, _ = _propagate(case, so)
        _, a_2s, _ = _propagate(case, 2 * so)
        _, a_ref, n_ref = _propagate(case, 16 * so)
        e1 = float((_phys(a_s) - _phys(a_ref)).abs().max())
        e2 = float((_phys(a_2s) - _phys(a_ref)).abs().max())
        info = {"defect": defect}
        if e1 > 1e-10 and e2 > 1e-13:
            ratio = e1 / e2
            info["order_ratio_min"] = -ratio  # recorder keeps the largest |value|; sign marks 'smaller is worse'
            if ratio < 8.0:
                return Outcome.fail("integrator_order", f"amplitude error vs 16x finer reference: sub-steps {so}->{2 * so}: {e1:.3e} -> {e2:.3e} (ratio {ratio:.2f} < 8; 4th order gives 16)",
                                    labels, True, ratio=ratio)
            labels.append("order_measured")
        # the converged limit must be norm preserving (an antisymmetric coupling generates a unitary flow)
        if e2 < 1e-9:
            dref = float(np.abs(n_ref - 1.0).max())
            info["defect_converged"] = dref
            if dref > 1e-7:
                return Outcome.fail("norm_converged_limit", f"population of the converged solution deviates from 1 by {dref:.3e}", labels, True, defect=dref)
        # isolation: with a fixed sub-step count a trajectory alone equals the same trajectory inside the batch, bitwise
        if case["B"] > 1:
            _, a1, _ = _propagate(case, sub, rows=[case["B"] - 1])
            if not torch.equal(a1[0], a[case["B"] - 1]):
                dd = float((a1[0] - a[case["B"] - 1]).abs().max())
                return Outcome.fail("isolation_propagation", f"trajectory alone vs in batch differs by {dd:.3e} (fixed sub-steps)", labels, True)
        # hop integral of an antisymmetric coupling is antisymmetric (flux i->j = - flux j->i), zero diagonal
        H = d._hop_integral
        if H is not None:
            asym = float((H + H.transpose(1, 2)).abs().max())
            dia = float(H.diagonal(dim1=1, dim2=2).abs().max())
            if asym > 1e-12 * max(1.0, float(H.abs().max())) or dia != 0.0:
                return Outcome.fail("hop_integral_symmetry", f"hop integral: |H+H^T|={asym:.3e}, |diag|={dia:.3e}", labels, True)
        return Outcome.ok(nontrivial, labels, **info)


# ------------------------------------------------------------------ hop probabilities
@contextlib.contextmanager
def _capture_cumsum(store):
    orig = torch.cumsum

    def rec(x, *a, **kw):
        store.append(x.detach().clone())
        return orig(x, *a, **kw)

    torch.cumsum = rec
    try:
        yield
    finally:
        torch.cumsum = orig


@contextlib.contextmanager
def _fixed_rand(values):
    orig = torch.rand

    def fake(*size, **kw):
        return torch.tensor(values, dtype=torch.float64)[: size[0] if size and isinstance(size[0], int) else None]

    torch.rand = fake
    try:
        yield
    finally:
        torch.rand = orig


def _raw_rowsum(case, b):
    """sum_j max(0, hop integral_ij / pop_i) of trajectory b computed alone (before the code's sum>1 guard)"""
    d1 = make_fssh(1, case["n"], case["dt"], case["sub"], [case["active"][b]])
    set_amplitudes(d1, [case["amp"][b]])
    co1, cn1 = _caches(case, [b])
    d1._propagate_electronic(co1, cn1, substeps=case["sub"])
    pop = float(d1.populations[0, case["active"][b]])
    row = d1._hop_integral[0, case["active"][b]].numpy() / max(pop, 1e-10)
    return float(np.clip(row, 0, None).sum())


@st.composite
def _prob_case(draw):
    c = draw(_norm_case())
    c["active"] = [draw(st.integers(0, c["n"] - 1)) for _ in range(c["B"])]
    c["r"] = [draw(st.integers(0, 1000)) / 1000.0 for _ in range(c["B"])]
    c["sub"] = draw(st.sampled_from([None, 8, 8, 16]))
    return c


class HopProb(SubCheck):
    name = "hopprob"
    budget = {"quick": 6000, "thorough": 150000}
    weight = 1.0

    def strategy(self, tier):
        return _prob_case()

    def oracle(self, case):
        labels = ["kind:" + case["kind"], "n:%d" % case["n"], "B:%d" % case["B"]]
        d = make_fssh(case["B"], case["n"], case["dt"], case["sub"], case["active"])
        set_amplitudes(d, case["amp"])
        co, cn = _caches(case)
        d._propagate_electronic(co, cn, substeps=case["sub"])
        store = []
        with _capture_cumsum(store), _fixed_rand(case["r"]):
            tgt = d._attempt_hop()
        if not store:
            return Outcome.inconclusive("probabilities_not_observable", labels)
        g = store[-1].numpy()
        act = np.array(case["active"])
        if not np.isfinite(g).all():
            return Outcome.fail("hopprob_nonfinite", "non-finite hop probability", labels)
        if g.min() < 0.0 or g.max() > 1.0 + 1e-12:
            return Outcome.fail("hopprob_range", f"g outside [0,1]: min {g.min():.3e} max {g.max():.3e}", labels, True)
        rs = g.sum(axis=1)
        if rs.max() > 1.0 + 1e-12:
            return Outcome.fail("hopprob_rowsum", f"sum_j g_ij = {rs.max():.6f} > 1", labels, True)
        gii = g[np.arange(case["B"]), act]
        if np.abs(gii).max() != 0.0:
            return Outcome.fail("hopprob_diagonal", f"g_ii = {np.abs(gii).max():.3e} != 0", labels, True)
        # the chosen target is the one the cumulative rule selects for the fixed draw r; never the active state itself
        tg = tgt.numpy()
        for b in range(case["B"]):
            cs = np.cumsum(g[b])
            want = int(np.argmax(cs >= case["r"][b])) if (cs >= case["r"][b]).any() else -1
            if tg[b] != want:
                return Outcome.fail("hop_target_selection", f"row {b}: target {tg[b]}, cumulative rule gives {want} (r={case['r'][b]})", labels, True)
            if tg[b] == act[b] and g[b, act[b]] == 0 and case["r"][b] > 0:
                return Outcome.fail("hop_to_self", f"row {b}: hop to the active state itself", labels, True)
        # isolation ("nothing done to one trajectory of a batch affects another"): with a fixed sub-step count the
        # propagation is bitwise batch independent (asserted in `norm`), so the hop probabilities and the selected target
        # of trajectory b alone must equal those it gets inside the batch.
        if case["B"] > 1 and case["sub"] is not None:
            renorm = [bool(x) for x in (np.array([_raw_rowsum(case, b) for b in range(case["B"])]) > 1.0)]
            if any(renorm) and not all(renorm):
                labels.append("mixed_spike_batch")
            for b in range(case["B"]):
                d1 = make_fssh(1, case["n"], case["dt"], case["sub"], [case["active"][b]])
                set_amplitudes(d1, [case["amp"][b]])
                co1, cn1 = _caches(case, [b])
                d1._propagate_electronic(co1, cn1, substeps=case["sub"])
                st1 = []
                with _capture_cumsum(st1), _fixed_rand([case["r"][b]]):
                    t1 = d1._attempt_hop()
                if st1 and not np.array_equal(st1[-1].numpy()[0], g[b]):
                    dd = float(np.abs(st1[-1].numpy()[0] - g[b]).max())
                    return Outcome.fail("isolation_hop_probability", f"trajectory {b}: hop probabilities alone vs in batch differ by {dd:.3e} "
                                        f"(alone sum {st1[-1].numpy()[0].sum():.4f}, batched sum {g[b].sum():.4f})", labels, True)
                if int(t1[0]) != int(tg[b]):
                    return Outcome.fail("isolation_hop_target", f"trajectory {b}: target alone {int(t1[0])} vs batched {int(tg[b])} for the same draw", labels, True)
        return Outcome.ok(case["scale"] > 0 and g.max() > 0, labels, gmax=float(g.max()))


# ------------------------------------------------------------------ velocity rescaling
@st.composite
def _rescale_case(draw):
    nat = draw(st.integers(1, 5))
    B = draw(st.integers(1, 4))
    kind = draw(st.sampled_from(["generic", "generic", "orthogonal", "zero_d", "padding", "tiny_v"]))
    masses = [[draw(st.sampled_from([1.008, 12.011, 14.007, 15.999, 32.06, 35.45])) for _ in range(nat)] for _ in range(B)]
    case = {"nat": nat, "B": B, "kind": kind, "mass": masses, "mol": draw(st.integers(0, B - 1)),
            "v": [[[draw(u1) * 0.02 for _ in range(3)] for _ in range(nat)] for _ in range(B)],
            "d": [[draw(u1) for _ in range(3)] for _ in range(nat)],
            "dE": draw(st.sampled_from([-5.0, -1.0, -0.1, -1e-3, -1e-6, 1e-6, 1e-3, 0.05, 0.5, 3.0])),
            "i": draw(st.integers(0, 3)), "j": draw(st.integers(0, 3))}
    if case["i"] == case["j"]:
        case["j"] = (case["i"] + 1) % 4
    if kind == "padding" and nat > 1:
        case["pad"] = draw(st.integers(1, nat - 1))
    return case


def _rescale_inputs(case):
    B, nat, mol = case["B"], case["nat"], case["mol"]
    v = np.array(case["v"], dtype=float)
    dvec = np.array(case["d"], dtype=float)
    minv = 1.0 / np.array(case["mass"], dtype=float)
    if case.get("pad"):
        minv[:, case["pad"]:] = 0.0
        v[:, case["pad"]:] = 0.0
    if case["kind"] == "zero_d":
        dvec[:] = 0.0
    if case["kind"] == "tiny_v":
        v[mol] *= 1e-6
    if case["kind"] == "orthogonal":
        # make v.d exactly zero in floating point: d supported on atom 0's x, v with zero x on atom 0
        dvec[:] = 0.0
        dvec[0, 0] = case["d"][0][0] if abs(case["d"][0][0]) > 1e-3 else 0.7
        v[mol, 0, 0] = 0.0
    return v, dvec, minv


def _ek(v, minv, KES):
    m = np.where(minv > 0, 1.0 / np.where(minv > 0, minv, 1.0), 0.0)
    return 0.5 * float((m[:, None] * v ** 2).sum()) * KES


class Rescale(SubCheck):
    name = "rescale"
    budget = {"quick": 12000, "thorough": 400000}
    weight = 1.0

    def strategy(self, tier):
        return _rescale_case()

    def oracle(self, case):
        ND, C = _mods()
        KES = C.KINETIC_ENERGY_SCALE
        labels = ["kind:" + case["kind"], "dE:%s" % ("down" if case["dE"] < 0 else "up"), "B:%d" % case["B"]]
        v, dvec, minv = _rescale_inputs(case)
        B, mol = case["B"], case["mol"]
        i, j = case["i"], case["j"]
        key = (i, j) if i < j else (j, i)
        pair = torch.tensor(np.broadcast_to(dvec, (B,) + dvec.shape).copy(), dtype=torch.float64)
        molecule = SimpleNamespace(velocities=torch.tensor(v, dtype=torch.float64),
                                   mass_inverse=torch.tensor(minv, dtype=torch.float64).unsqueeze(-1))
        d = make_fssh(B, 4, 0.1, 4, [i] * B)
        v0 = molecule.velocities.clone()
        try:
            ok = d._rescale_velocity_along_nac({key: pair}, i, j, molecule, case["dE"], mol_index=mol)
        except Exception as e:
            return Outcome.fail(f"exception:{type(e).__name__}", f"{type(e).__name__}: {e}", labels)
        ok = bool(ok)
        v1 = molecule.velocities
        # isolation: other trajectories bitwise untouched
        for b in range(B):
            if b != mol and not torch.equal(v1[b], v0[b]):
                return Outcome.fail("isolation_rescale", f"velocities of trajectory {b} changed by a hop of trajectory {mol}", labels, True)
        dv = (v1[mol] - v0[mol]).numpy()
        # oriented coupling vector the code uses (sign flips with the state order; irrelevant for the invariants)
        dm = dvec * minv[mol][:, None]
        d2m = float((minv[mol] * (dvec ** 2).sum(axis=1)).sum())
        vd = float((v0[mol].numpy() * dvec).sum())
        rad = vd * vd - 2.0 * (case["dE"] / KES) * d2m
        possible = d2m > 1e-12 and rad > 1e-9 * max(vd * vd, abs(2.0 * (case["dE"] / KES) * d2m), 1e-300)
        impossible = d2m <= 1e-12 or rad < -1e-9 * max(vd * vd, abs(2.0 * (case["dE"] / KES) * d2m))
        if not ok:
            if not torch.equal(v1, v0):
                return Outcome.fail("frustrated_changes_velocity", "rejected hop changed velocities", labels, True)
            if possible:
                return Outcome.fail("possible_hop_rejected", f"energetically allowed hop rejected (discriminant {rad:.3e} > 0)", labels, True)
            return Outcome.ok(True, labels)
        if impossible:
            return Outcome.fail("forbidden_hop_accepted", f"hop accepted although no real velocity adjustment exists (discriminant {rad:.3e}, d2/m {d2m:.3e})", labels, True)
        # direction: dv_a parallel to d_a/m_a for every atom
        cr = np.cross(dv, dm)
        # dv is obtained here as v_after - v_before, a difference of stored doubles: its absolute round-off is ~eps*|v|,
        # which for a tiny hop (dE = 1e-6 eV -> |dv| ~ 1e-8) is 3e-10 relative. (The first version used a purely relative
        # 1e-10 bound and raised a false alarm on exactly such a case; the code was right.)
        vmax = float(np.abs(v0[mol].numpy()).max())
        scale = max(1e-300, float(np.abs(dv).max()) * float(np.abs(dm).max()))
        floor = 16 * 2.2e-16 * vmax * float(np.abs(dm).max())
        if float(np.abs(cr).max()) > 1e-10 * scale + floor and float(np.abs(dv).max()) > 0:
            return Outcome.fail("rescale_direction", "velocity change not along the mass-weighted coupling vector", labels, True)
        if minv[mol].min() == 0.0 and np.abs(dv[minv[mol] == 0.0]).max() != 0.0:
            return Outcome.fail("padding_moves", "padding atom velocity changed by a hop", labels, True)
        # energy: Ek_after - Ek_before = -dE
        ek0 = _ek(v0[mol].numpy(), minv[mol], KES)
        ek1 = _ek(v1[mol].numpy(), minv[mol], KES)
        err = abs((ek1 - ek0) + case["dE"])
        tol = 1e-10 * max(abs(case["dE"]), ek0, ek1, 1e-12)
        orth = ":v_dot_d_zero" if vd == 0.0 else ""
        if err > tol:
            return Outcome.fail("hop_energy_not_conserved" + orth, f"accepted hop: dEk + dE = {ek1 - ek0 + case['dE']:.6e} (dE={case['dE']}, v.d={vd:.3e})", labels, True, err=err)
        # smaller of the two adjustments: alpha = dv.dm/|dm|^2 ; roots (-vd +- sqrt(rad))/d2m
        alpha = float((dv * dm).sum() / max((dm * dm).sum(), 1e-300))
        r1, r2 = (-vd + math.sqrt(max(rad, 0))) / d2m, (-vd - math.sqrt(max(rad, 0))) / d2m
        small = min(abs(r1), abs(r2))
        afloor = 16 * 2.2e-16 * vmax / max(float(np.abs(dm).max()), 1e-300)  # same cancellation, expressed in alpha
        if abs(abs(alpha) - small) > 1e-8 * max(small, abs(alpha), 1e-300) + afloor:
            return Outcome.fail("larger_root_chosen" + orth, f"|alpha| = {abs(alpha):.6e}, roots {r1:.6e}, {r2:.6e}", labels, True)
        return Outcome.ok(True, labels, energy_err=err)


# ------------------------------------------------------------------ trivial crossings
def _perms_in_window(n, w=2):
    return [p for p in itertools.permutations(range(n)) if all(abs(p[i] - i) <= w for i in range(n))]


_PERMS = {}


def _cycle_type(p):
    seen, out = set(), []
    for i in range(len(p)):
        if i in seen:
            continue
        k, j = 0, i
        while j not in seen:
            seen.add(j)
            j = p[j]
            k += 1
        if k > 1:
            out.append(k)
    return tuple(sorted(out))


@st.composite
def _cross_case(draw):
    n = draw(st.integers(2, 6))
    if n not in _PERMS:
        _PERMS[n] = _perms_in_window(n)
    B = draw(st.integers(1, 3))
    rows = []
    for _ in range(B):
        p = draw(st.sampled_from(_PERMS[n]))
        rows.append({"p": list(p), "signs": [draw(st.sampled_from([1, -1])) for _ in range(n)],
                     "mix": [draw(u1) for _ in range(n * (n - 1) // 2)]})
    return {"n": n, "B": B, "rows": rows, "mixamp": draw(st.sampled_from([0.0, 0.02, 0.1])),
            "active": [draw(st.integers(0, n - 1)) for _ in range(B)],
            "amp": [[[draw(u1), draw(u1)] for _ in range(n)] for _ in range(B)], "repeat": draw(st.integers(1, 2))}


def _expm_antisym(vals, n, scale):
    A = antisym(vals, n, scale)
    w, V = np.linalg.eig(A)
    return np.real(V @ np.diag(np.exp(w)) @ np.linalg.inv(V))


# ------------------------------------------------------------------ the real hop decision + velocity adjustment in a batch
@st.composite
def _update_case(draw):
    n = draw(st.integers(2, 5))
    B = draw(st.integers(1, 5))
    nat = draw(st.integers(1, 3))
    rows = []
    for _ in range(B):
        act = draw(st.integers(0, n - 1))
        hop = draw(st.sampled_from(["none", "hop", "hop"]))
        tgt = draw(st.integers(0, n - 2))
        tgt = tgt if tgt < act else tgt + 1
        rows.append({"active": act, "hop": hop, "target": tgt,
                     "e": sorted(draw(st.integers(0, 4000)) / 1000.0 for _ in range(n)),
                     "v": [[draw(u1) * 0.02 for _ in range(3)] for _ in range(nat)],
                     "d": [[draw(u1) for _ in range(3)] for _ in range(nat)],
                     "m": [draw(st.sampled_from([1.008, 12.011, 15.999, 32.06])) for _ in range(nat)],
                     "amp": [[draw(u1), draw(u1)] for _ in range(n)]})
    return {"n": n, "B": B, "nat": nat, "rows": rows, "decohere": draw(st.booleans())}


def _run_update(case, members):
    """drive the repository's _after_electronic_update for the given batch members; returns per-member results"""
    ND, C = _mods()
    n, nat = case["n"], case["nat"]
    rows = [case["rows"][b] for b in members]
    B = len(rows)
    d = make_fssh(B, n, 0.1, 4, [r["active"] for r in rows], decohere=case["decohere"])
    amps = []
    for r in rows:
        a = [list(x) for x in r["amp"]]
        if all(abs(v) < 1e-6 for pr in a for v in pr):
            a[0][0] = 1.0
        if abs(a[r["active"]][0]) + abs(a[r["active"]][1]) < 1e-3:
            a[r["active"]][0] = 0.5   # the active state carries population
        amps.append(a)
    set_amplitudes(d, amps)
    # hop integral: members that are to attempt a hop get probability 1 towards their target, the others 0
    H = torch.zeros(B, n, n, dtype=torch.float64)
    for b, r in enumerate(rows):
        if r["hop"] == "hop":
            H[b, r["active"], r["target"]] = 10.0
    d._hop_integral = H
    exc = torch.tensor([r["e"] for r in rows], dtype=torch.float64)
    vel = torch.tensor([r["v"] for r in rows], dtype=torch.float64)
    minv = torch.tensor([[1.0 / m for m in r["m"]] for r in rows], dtype=torch.float64).unsqueeze(-1)
    dv = torch.tensor([r["d"] for r in rows], dtype=torch.float64)
    molecule = SimpleNamespace(coordinates=torch.zeros(B, nat, 3, dtype=torch.float64), velocities=vel.clone(), mass_inverse=minv,
                               Etot=torch.zeros(B, dtype=torch.float64) + exc[torch.arange(B), torch.tensor([r["active"] for r in rows])],
                               force=torch.zeros(B, nat, 3, dtype=torch.float64), acc=None, active_state=None)

    def nacr(mol, pairs):  # same signature and return format as the repository's _compute_NACR_for_hop
        return {(s1 - 1, s2 - 1): dv.clone() for (s1, s2) in pairs}

    d._compute_NACR_for_hop = nacr
    d._recompute_active_force = lambda m: None
    with _fixed_rand([0.5] * B):
        d._after_electronic_update(molecule, exc, step=0)
    out = []
    for b, r in enumerate(rows):
        out.append({"active": int(d._active_states[b]), "v": molecule.velocities[b].clone(), "amp": d._amp_phase[b].clone(),
                    "v0": vel[b].clone(), "events": [(e.from_state, e.to_state, e.accepted) for e in d.hop_log if e.mol_index == b]})
    return out


class Update(SubCheck):
    """_after_electronic_update on batches with mixed active states, hopping and non-hopping members, different gaps."""
    name = "update"
    budget = {"quick": 6000, "thorough": 150000}
    weight = 1.0

    def strategy(self, tier):
        return _update_case()

    def oracle(self, case):
        ND, C = _mods()
        KES = C.KINETIC_ENERGY_SCALE
        B = case["B"]
        hops = [r["hop"] == "hop" for r in case["rows"]]
        labels = ["B:%d" % B, "n:%d" % case["n"], "hoppers:%d" % sum(hops)]
        if any(hops) and not all(hops) and not hops[0]:
            labels.append("nonhopper_precedes_hopper")
        try:
            res = _run_update(case, list(range(B)))
        except Exception as e:
            return Outcome.fail(f"exception:{type(e).__name__}", f"{type(e).__name__}: {e}", labels)
        attempted = False
        for b, (r, o) in enumerate(zip(case["rows"], res)):
            minv = 1.0 / np.array(r["m"])
            if r["hop"] != "hop":
                # nothing done to other trajectories may affect this one: bitwise untouched
                if o["active"] != r["active"] or not torch.equal(o["v"], o["v0"]):
                    return Outcome.fail("isolation_update", f"trajectory {b} did not attempt a hop but its state/velocities changed", labels, True)
                continue
            attempted = True
            dE = r["e"][r["target"]] - r["e"][r["active"]]
            ek0 = _ek(o["v0"].numpy(), minv, KES)
            ek1 = _ek(o["v"].numpy(), minv, KES)
            if o["active"] == r["target"]:
                err = abs((ek1 - ek0) + dE)
                if err > 1e-10 * max(abs(dE), ek0, ek1, 1e-12):
                    vd = float((o["v0"].numpy() * np.array(r["d"])).sum())
                    tag = ":v_dot_d_zero" if vd == 0.0 else ""
                    return Outcome.fail("hop_energy_not_conserved" + tag, f"trajectory {b} of {B}: accepted hop {r['active']}->{r['target']} (own gap {dE:+.4f} eV): dEk + dE = {ek1 - ek0 + dE:+.4e} eV",
                                        labels, True, err=err)
            elif o["active"] == r["active"]:
                if not torch.equal(o["v"], o["v0"]):
                    return Outcome.fail("frustrated_changes_velocity", f"trajectory {b}: frustrated hop changed velocities", labels, True)
            else:
                return Outcome.fail("hop_to_unrequested_state", f"trajectory {b}: active {r['active']} -> {o['active']}, requested {r['target']}", labels, True)
        # differential isolation: every member alone gives bitwise the same outcome as inside the batch
        if B > 1:
            for b in range(B):
                alone = _run_update(case, [b])[0]
                if alone["active"] != res[b]["active"] or not torch.equal(alone["v"], res[b]["v"]) or not torch.equal(alone["amp"], res[b]["amp"]):
                    dvv = float((alone["v"] - res[b]["v"]).abs().max())
                    return Outcome.fail("isolation_update_alone_vs_batch", f"trajectory {b}: alone -> state {alone['active']}, in batch -> state {res[b]['active']}; max |dv| = {dvv:.3e}", labels, True)
        return Outcome.ok(attempted, labels)


def _overlap_inputs(n, B, rows, mixamp):
    nov = n + 2
    ref = np.zeros((B, n, nov))
    tgt = np.zeros((B, n, nov))
    for b, r in enumerate(rows):
        ref[b, :, :n] = np.eye(n)
        Smat = np.zeros((n, n))
        for i in range(n):
            Smat[i, r["p"][i]] = r["signs"][i]          # old state i has become new state p(i)
        Smat = Smat @ _expm_antisym(r["mix"], n, mixamp)
        tgt[b, :, :n] = Smat.T                             # overlap_ij = |<ref_i|tgt_j>| = |S_ij|
    return ref, tgt


@st.composite
def _history_case(draw):
    n = draw(st.integers(3, 6))
    if n not in _PERMS:
        _PERMS[n] = _perms_in_window(n)
    # transpositions / identity only: the recorded >=3-cycle finding is excluded by construction so that the search
    # continues behind it (counted as excluded_by_construction in the evidence through the label)
    simple = [p for p in _PERMS[n] if max(_cycle_type(p) or (1,)) <= 2]
    B = draw(st.integers(1, 3))
    events = []
    for _ in range(draw(st.integers(2, 4))):
        events.append([{"p": list(draw(st.sampled_from(simple))), "signs": [draw(st.sampled_from([1, -1])) for _ in range(n)],
                        "mix": [draw(u1) for _ in range(n * (n - 1) // 2)]} for _ in range(B)])
    return {"n": n, "B": B, "events": events, "mixamp": draw(st.sampled_from([0.0, 0.02])),
            "active": [draw(st.integers(0, n - 1)) for _ in range(B)]}


class CrossingHistory(SubCheck):
    """History independence of trivial-crossing detection: the relabelling (and the zeroed couplings) computed for an
    event must not depend on which events the same dynamics object has processed before. Reference = a fresh object."""
    name = "crossing_history"
    budget = {"quick": 5000, "thorough": 120000}
    weight = 1.0

    def strategy(self, tier):
        return _history_case()

    @staticmethod
    def _detect(d, n, B, rows, mixamp):
        ref, tgt = _overlap_inputs(n, B, rows, mixamp)
        nd = torch.ones(B, n, n, dtype=torch.float64) - torch.eye(n, dtype=torch.float64)
        co = {"cis_amp": torch.tensor(ref), "nac_dot": nd.clone()}
        cn = {"cis_amp": torch.tensor(tgt), "nac_dot": nd.clone()}
        sw = d._detect_crossings(co, cn)
        return (None if sw is None else sw.clone()), co["nac_dot"].clone(), cn["nac_dot"].clone()

    def oracle(self, case):
        n, B = case["n"], case["B"]
        labels = ["n:%d" % n, "B:%d" % B, "events:%d" % len(case["events"]), "excluded_by_construction:cycles>=3"]
        dh = make_fssh(B, n, 0.1, 4, case["active"])
        distinct = len({json_key(ev) for ev in case["events"]}) > 1
        for k, ev in enumerate(case["events"]):
            try:
                sw_h, co_h, cn_h = self._detect(dh, n, B, ev, case["mixamp"])
                df = make_fssh(B, n, 0.1, 4, case["active"])
                sw_f, co_f, cn_f = self._detect(df, n, B, ev, case["mixamp"])
            except Exception as e:
                return Outcome.fail(f"exception:{type(e).__name__}", f"{type(e).__name__}: {e}", labels)
            same = (sw_h is None and sw_f is None) or (sw_h is not None and sw_f is not None and torch.equal(sw_h, sw_f))
            if not same:
                return Outcome.fail("crossing_detection_depends_on_history",
                                    f"event {k}: relabelling after {k} earlier events {None if sw_h is None else sw_h.tolist()} vs fresh object {None if sw_f is None else sw_f.tolist()} "
                                    f"(permutations of this event {[r['p'] for r in ev]})", labels, True)
            if not (torch.equal(co_h, co_f) and torch.equal(cn_h, cn_f)):
                return Outcome.fail("zeroed_couplings_depend_on_history", f"event {k}: couplings zeroed for the swapped pairs differ from a fresh object's", labels, True)
            if sw_h is not None:
                for b in range(B):
                    perm = [int(sw_h[b, i]) if sw_h[b, i] >= 0 else i for i in range(n)]
                    if sorted(perm) != list(range(n)):
                        return Outcome.fail("relabelling_not_a_permutation:transpositions_only", f"event {k} row {b}: {perm}", labels, True)
        return Outcome.ok(distinct, labels)


def json_key(ev):
    return str([(tuple(r["p"]), tuple(r["signs"])) for r in ev])


class Crossings(SubCheck):
    name = "crossings"
    budget = {"quick": 6000, "thorough": 150000}
    weight = 1.0

    def strategy(self, tier):
        return _cross_case()

    def oracle(self, case):
        n, B = case["n"], case["B"]
        cyc = sorted({c for r in case["rows"] for c in _cycle_type(r["p"])})
        labels = ["n:%d" % n, "B:%d" % B] + ["cycle:%d" % c for c in cyc] + (["identity"] if not cyc else [])
        nov = n + 2
        ref = np.zeros((B, n, nov))
        tgt = np.zeros((B, n, nov))
        for b, r in enumerate(case["rows"]):
            ref[b, :, :n] = np.eye(n)
            S = np.zeros((n, n))
            for i in range(n):
                S[i, r["p"][i]] = r["signs"][i]          # old state i has become new state p(i)
            S = S @ _expm_antisym(r["mix"], n, case["mixamp"])
            tgt[b, :, :n] = S.T                            # overlap_ij = |<ref_i|tgt_j>| = |S_ij|
        d = make_fssh(B, n, 0.1, 4, case["active"])
        for amp in case["amp"]:
            if all(abs(v) < 1e-6 for pr in amp for v in pr):
                amp[0][0] = 1.0
        set_amplitudes(d, case["amp"])
        for rep in range(case["repeat"]):
            co = {"cis_amp": torch.tensor(ref), "nac_dot": torch.zeros(B, n, n, dtype=torch.float64)}
            cn = {"cis_amp": torch.tensor(tgt), "nac_dot": torch.zeros(B, n, n, dtype=torch.float64)}
            try:
                swap = d._detect_crossings(co, cn)
            except Exception as e:
                return Outcome.fail(f"exception:{type(e).__name__}", f"{type(e).__name__}: {e}", labels)
            if swap is None:
                continue
            sw = swap.clone().numpy()
            for b in range(B):
                perm = [int(sw[b, i]) if sw[b, i] >= 0 else i for i in range(n)]
                if sorted(perm) != list(range(n)):
                    ct = _cycle_type(case["rows"][b]["p"])
                    labels.append("badperm_cycle:" + "+".join(map(str, ct)))
                    # root cause signature = predicate over the INPUT: the recorded defect is that cycles of length >= 3
                    # are decomposed into overlapping pairwise swaps; a non-permutation for a row whose true relabelling
                    # consists of disjoint transpositions only would be a different defect and is reported on its own
                    bk = "relabelling_cycle_ge3_not_a_permutation" if ct and max(ct) >= 3 else "relabelling_not_a_permutation:transpositions_only"
                    return Outcome.fail(bk,
                                        f"true state permutation {case['rows'][b]['p']} -> swap_to {list(map(int, sw[b]))} completes to {perm}, not a permutation",
                                        labels, True)
        # apply the relabelling through the real update and check that amplitudes are permuted (multiset, norm exact)
        if swap is None:
            return Outcome.ok(bool(cyc), labels)
        before = d._amp_phase.clone()
        act0 = d._active_states.clone()
        d._trivial_crossing_mask = swap
        d._hop_integral = None
        molecule = SimpleNamespace(coordinates=torch.zeros(B, 1, 3, dtype=torch.float64), velocities=torch.zeros(B, 1, 3, dtype=torch.float64),
                                   mass_inverse=torch.ones(B, 1, 1, dtype=torch.float64), Etot=torch.zeros(B, dtype=torch.float64),
                                   force=torch.zeros(B, 1, 3, dtype=torch.float64), acc=None, active_state=None)
        d._recompute_active_force = lambda m: None
        exc = torch.arange(n, dtype=torch.float64).repeat(B, 1)
        try:
            d._after_electronic_update(molecule, exc, step=0)
        except Exception as e:
            return Outcome.fail(f"exception_update:{type(e).__name__}", f"{type(e).__name__}: {e}", labels)
        after = d._amp_phase
        sw = swap.numpy()
        for b in range(B):
            pa = sorted(map(tuple, before[b].numpy().round(14).tolist()))
            pb = sorted(map(tuple, after[b].numpy().round(14).tolist()))
            if pa != pb:
                pop0 = float((before[b, :, 0] ** 2 + before[b, :, 1] ** 2).sum())
                pop1 = float((after[b, :, 0] ** 2 + after[b, :, 1] ** 2).sum())
                return Outcome.fail("relabelling_changes_amplitudes", f"row {b}: amplitudes after relabelling are not a permutation of those before (population {pop0:.6f} -> {pop1:.6f})", labels, True)
            perm = [int(sw[b, i]) if sw[b, i] >= 0 else i for i in range(n)]
            if int(d._active_states[b]) != perm[int(act0[b])]:
                return Outcome.fail("active_index_not_relabelled", f"row {b}: active {int(act0[b])} -> {int(d._active_states[b])}, relabelling says {perm[int(act0[b])]}", labels, True)
        return Outcome.ok(bool(cyc), labels)


SUBCHECKS = [Norm(), HopProb(), Rescale(), Crossings(), CrossingHistory(), Update()]
