"""C03 -- a converged SCF result is self-consistent; failure is flagged; calls terminate (DESIGN 3/C03).

All residuals are computed by the harness from the RETURNED density, flag, energy and charges. The Fock operator of the
returned density is rebuilt by the independent NumPy reference (pv/refnddo.py; accuracy measured in C14: orbital energies
8e-7 eV, energy functional 3.5e-6 eV), so the check shares no code with the SCF it judges.

 converged flag False->"converged":   P symmetric, tr P = N_el, sum q = charge, P idempotent, [F(P),P] small, P = aufbau
                                      projector of F(P) (when the gap makes it well defined), Eelec = 1/2 tr P(H+F)
 residuals huge (>= 1e3 x bound)  =>  the flag must say NOT converged ("never silently converged"); exercised with iteration
                                      caps of 1..5 from poor starting densities
 termination                          SP2 purification loop is watched by a deterministic iteration monitor (monitors.py)
"""
import numpy as np
from hypothesis import strategies as st

from .. import molecules as M
from .. import strategies as S
from ..core import Outcome, SubCheck
from ..monitors import NonTermination
from ..seqm_api import notconv, pad_batch, run_sp, tonp, torch

PROPERTY = "C03"
LEVEL = "exploration"
RULE = ("Hypothesis draws molecules / zero-padded batches (neutrals, ions, UHF radicals; MNDO/AM1/PM3, <= 20 orbitals per row) x "
        "solver {fixed mixing alpha in [0,0.9], adaptive, Pulay} x {diagonalisation, SP2 tol 1e-3..1e-7} x eps 1e-4..1e-11 x "
        "initial density {default guess, converged density of a neighbouring geometry, that + symmetric noise, non-idempotent "
        "mixture, wrong-trace scaling} x iteration cap {1,2,5,20,1000}. non-trivial = padding or ion or UHF or non-default "
        "start or cap below 1000; distinct = case hash. finite_temperature: 1-3 closed-shell neutrals / ions in a zero-padded batch x "
        "T_el in {300..20000 K} x fixed / adaptive mixing; non-trivial = rows of different orbital count, padding or an ion")
ASSUMPTIONS = ["Fock operator rebuilt by the independent reference: residual floor 2e-5 eV (10x the reference's measured accuracy)",
               "bounds: commutator and idempotency <= 400*(eps + sp2_tol_eff)/(1-alpha) + floor; calibrated maxima on the unchanged "
               "tree are reported in the evidence (largest_observed)",
               "KSA (scf_converger=[3,...]) is not generated here",
               "finite_temperature: the returned density is compared with the Fermi-occupied density (bisection for mu, k_B = 8.61739e-5 eV/K as in the "
               "code) of the reference Fock operator of that density; bounds floor + 200 eps/(1-alpha) (fermi), 2000 eps/(1-alpha) (commutator)"]

FLOOR = 2e-5


@st.composite
def _case(draw):
    method = draw(st.sampled_from(["MNDO", "AM1", "PM3"]))
    kind = draw(st.sampled_from(["neutral", "neutral", "ion", "radical"]))
    pool = [t for t in M.names(method, (kind,), 5, 1) if M.n_orbitals(t) <= 20]
    tpl = draw(st.sampled_from(pool))
    n = len(M.ALL[tpl]["Z"])
    mol = {"method": method, "tpl": tpl, "amp": draw(st.sampled_from([0.0, 0.05, 0.1]))}
    if mol["amp"]:
        mol["disp"] = draw(st.lists(S.q3, min_size=3 * n, max_size=3 * n))
    case = {"mol": mol}
    uhf = kind == "radical"
    if not uhf and draw(st.integers(0, 2)) == 0:
        k2 = draw(st.sampled_from(["neutral", "ion", "ion"]))
        pool2 = [t for t in M.names(method, (k2,), 5, 1) if M.n_orbitals(t) <= 20]
        case["mates"] = [{"method": method, "tpl": draw(st.sampled_from(pool2)), "amp": 0.0}]
        case["padw"] = draw(st.integers(0, 2))
        case["row"] = draw(st.integers(0, 1))
    conv = draw(st.sampled_from(["fixed", "fixed", "adaptive", "adaptive", "pulay"]))
    if conv == "fixed":
        case["conv"] = [0, draw(st.sampled_from([0.0, 0.2, 0.5, 0.8, 0.9]))]
    elif conv == "adaptive":
        case["conv"] = [1]
    else:
        case["conv"] = [1] if uhf else [2]
    case["sp2"] = [False]
    if not uhf and draw(st.integers(0, 3)) == 0:
        case["sp2"] = [True, 10.0 ** (-draw(st.integers(3, 7)))]
    case["eps"] = 10.0 ** (-draw(st.integers(4, 11)))
    case["p0"] = draw(st.sampled_from(["default", "default", "neighbour", "noisy", "mixture", "wrong_trace"]))
    case["seed"] = draw(st.integers(0, 10 ** 6))
    case["cap"] = draw(st.sampled_from([1000, 1000, 1000, 20, 5, 2, 1]))
    return case


def _rows(case):
    mols = [case["mol"]] + list(case.get("mates", []))
    if case.get("row", 0) == 1:
        mols = mols[::-1]
    rows = []
    for mc in mols:
        Z, x = M.geometry(mc)
        m = M.ALL[mc["tpl"]]
        rows.append((list(Z), x, m["charge"], m["mult"]))
    return rows


def _call(case, rows, P0=None, shift=None, cap=None, conv=None, eps=None, sp2=None):
    import seqm.seqm_functions.scf_loop as SL

    geo = [(r[0], r[1] if shift is None else r[1] + shift[i]) for i, r in enumerate(rows)]
    Sx, X = pad_batch(geo, width=max(len(r[0]) for r in rows) + case.get("padw", 0))
    uhf = any(r[3] != 1 for r in rows)
    old = SL.MAX_ITER
    SL.MAX_ITER = cap if cap is not None else case["cap"]
    try:
        return run_sp(Sx, X, method=case["mol"]["method"], eps=eps or case["eps"], conv=conv or case["conv"],
                      sp2=sp2 if sp2 is not None else case["sp2"], charges=np.array([r[2] for r in rows]),
                      mult=np.array([r[3] for r in rows]), uhf=uhf, P0=P0), uhf
    finally:
        SL.MAX_ITER = old


def _start_density(case, rows):
    """builds the initial density described by case['p0'] (deterministic given case['seed'])"""
    kind = case["p0"]
    if kind == "default":
        return None
    rng = np.random.default_rng(case["seed"])
    shift = [rng.normal(size=r[1].shape) * 0.03 for r in rows]
    r0, uhf = _call(case, rows, shift=shift, cap=1000, conv=[1], eps=1e-9, sp2=[False])
    if notconv(r0).any():
        return None
    P = r0.mol.dm.clone()
    if kind == "neighbour":
        return P
    if kind == "noisy":
        N = torch.tensor(rng.normal(size=tuple(P.shape[-2:])) * 0.02)
        N = 0.5 * (N + N.T)
        mask = (P.abs().sum(dim=tuple(range(P.dim() - 2))) > 0).to(P.dtype) if P.dim() > 2 else 1.0
        return P + N * (P != 0).to(P.dtype)  # keep the padding block empty
    if kind == "mixture":
        # non-idempotent: average with the diagonal guess-like density of the same trace
        D = torch.diag_embed(torch.diagonal(P, dim1=-2, dim2=-1))
        return 0.5 * P + 0.5 * D
    if kind == "wrong_trace":
        return P * 1.1
    return None


def _bounds(case, sp2_eff):
    """Per-residual bounds. The code stops when the CHANGE between iterations is small (energy <= eps, rms density <= 2 eps,
    largest element <= 15 eps), so:
      aufbau  |aufbau(F(P)) - P|  is the next undamped change: <= 15 eps/(1-alpha) by the code's own criterion -> 60x eps/(1-alpha)
      commutator ~ (orbital-energy scale, up to ~60 eV) x density error: calibration on the unchanged tree (1800 cases):
              (1-alpha)/eps x commutator: max 172 (RHF fixed), 84 (RHF adaptive), 18 (Pulay), 144 (UHF); one slowly converging
              UHF case reached 425 -> K = 2000
      idempotency / trace of the returned (mixed) density: O(change) -> 200 eps/(1-alpha); with SP2 0.2-0.5 x sp2_tol -> 4 x
      energy functional: reference floor 2e-6 measured -> 5e-5 + 200 (eps + sp2)/(1-alpha)"""
    alpha = case["conv"][1] if case["conv"][0] == 0 else 0.0
    e = case["eps"] / (1.0 - alpha)
    s2 = sp2_eff / (1.0 - alpha)
    return {"trace": 1e-9 + 200 * e + 4 * sp2_eff, "charge_sum": 1e-9 + 200 * e + 4 * sp2_eff, "idempotency": 1e-9 + 200 * e + 4 * sp2_eff,
            "aufbau": FLOOR + 60 * e + 40 * s2, "commutator": FLOOR + 2000 * (e + s2), "energy_functional": 5e-5 + 200 * (e + s2)}


class SelfConsistent(SubCheck):
    name = "selfconsistent"
    budget = {"quick": 2400, "thorough": 60000}
    weight = 2.0

    def strategy(self, tier):
        return _case()

    def nontermination_outcome(self, case, e):
        """root-cause signature of a monitor hit. Recorded finding, scoped by CALL SITE: the SP2 purification loop has no
        iteration cap, so every input for which purification does not converge hangs the call. The first version of the
        predicate also required a row with negative charge (all hangs seen until then had one); the check itself then found
        a hang for two NEUTRAL molecules (AM1 [CH3F, PF3] padded, restart from a scaled density), so the predicate was
        widened to the root cause = the loop. A monitor hit in any other loop is reported under its own bucket."""
        rows = _rows(case)
        width = max(len(r[0]) for r in rows) + case.get("padw", 0)
        padded = any(len(r[0]) < width for r in rows)
        anion = any(r[2] < 0 for r in rows)
        labels = ["sp2:True", "padded:%s" % padded, "anion:%s" % anion, "rows:%d" % len(rows), "p0:" + case["p0"]]
        if e.loop == "SP2":
            return Outcome.fail("sp2_loop_without_iteration_cap", f"{e} (charges {[r[2] for r in rows]}, padded={padded}, start={case['p0']})", labels, True)
        return Outcome.fail(f"nontermination:{e.loop}", str(e), labels, True)

    def oracle(self, case):
        from .. import refnddo as R

        rows = _rows(case)
        width = max(len(r[0]) for r in rows) + case.get("padw", 0)
        labels = ["method:" + case["mol"]["method"], "conv:%s" % case["conv"][0], "sp2:%s" % case["sp2"][0], "p0:" + case["p0"],
                  "cap:%d" % case["cap"], "eps:1e%d" % round(np.log10(case["eps"])), "rows:%d" % len(rows),
                  "padded:%s" % any(len(r[0]) < width for r in rows), "ion:%s" % any(r[2] != 0 for r in rows),
                  "uhf:%s" % any(r[3] != 1 for r in rows)]
        nontrivial = (any(len(r[0]) < width for r in rows) or any(r[2] != 0 for r in rows) or any(r[3] != 1 for r in rows)
                      or case["p0"] != "default" or case["cap"] < 1000)
        P0 = _start_density(case, rows)
        if case["p0"] != "default" and P0 is None:
            return Outcome.inconclusive("start_density_not_available", labels)
        try:
            r, uhf = _call(case, rows, P0=P0)
        except NonTermination:
            raise
        except Exception as e:
            return Outcome.fail(f"exception:{type(e).__name__}", f"{type(e).__name__}: {str(e)[:200]}", labels, nontrivial)
        nc = notconv(r)
        sp2_eff = 0.0
        if case["sp2"][0]:
            sp2_eff = min(max(case["sp2"][1], 1e-7), 1e-3)
        bounds = _bounds(case, sp2_eff)
        info = {}
        for b, (Z, x, Q, mult) in enumerate(rows):
            n = len(Z)
            norb = sum(1 if z == 1 else 4 for z in Z)
            nel = sum(M.VALENCE[z] for z in Z) - Q
            P = tonp(r.mol.dm[b])
            finite = np.isfinite(P).all() and np.isfinite(float(r.mol.Eelec[b]))
            if not finite:
                if not nc[b]:
                    return Outcome.fail("nonfinite_flagged_converged", f"row {b}: NaN/inf in density or energy with notconverged False", labels, nontrivial)
                continue
            ref = R.Model(case["mol"]["method"], list(Z), np.asarray(x))
            if not uhf:
                Pr = ref.from_seqm_P(P)
                F = ref.fock(Pr)
                sym = float(np.abs(P - P.T).max())
                tr = abs(np.trace(Pr) - nel)
                idem = float(np.abs(Pr @ Pr - 2.0 * Pr).max())
                comm = float(np.abs(F @ Pr - Pr @ F).max())
                efun = abs(ref.eelec(Pr) - float(r.mol.Eelec[b]))
                ev, C = np.linalg.eigh(F)
                nocc = nel // 2
                auf = None
                if 0 < nocc < norb and ev[nocc] - ev[nocc - 1] > 0.5:
                    auf = float(np.abs(2.0 * C[:, :nocc] @ C[:, :nocc].T - Pr).max())
                outside = float(np.abs(P).sum() - np.abs(Pr).sum())
            else:
                Pa, Pb = ref.from_seqm_P(P[0]), ref.from_seqm_P(P[1])
                Fa, Fb = ref.fock_u(Pa, Pb)
                sym = float(max(np.abs(P[0] - P[0].T).max(), np.abs(P[1] - P[1].T).max()))
                tr = abs(np.trace(Pa) + np.trace(Pb) - nel)
                idem = float(max(np.abs(Pa @ Pa - Pa).max(), np.abs(Pb @ Pb - Pb).max()))
                comm = float(max(np.abs(Fa @ Pa - Pa @ Fa).max(), np.abs(Fb @ Pb - Pb @ Fb).max()))
                efun = abs(ref.eelec_u(Pa, Pb) - float(r.mol.Eelec[b]))
                auf = None
                na, nb_ = (nel + mult - 1) // 2, (nel - mult + 1) // 2
                parts = []
                for Fs, Ps, no in ((Fa, Pa, na), (Fb, Pb, nb_)):
                    evs, Cs = np.linalg.eigh(Fs)
                    if 0 < no < norb and evs[no] - evs[no - 1] > 0.5:
                        parts.append(float(np.abs(Cs[:, :no] @ Cs[:, :no].T - Ps).max()))
                if len(parts) == 2:
                    auf = max(parts)
                outside = float(np.abs(P).sum() - np.abs(Pa).sum() - np.abs(Pb).sum())
            qsum = abs(float(tonp(r.mol.q[b])[:n].sum()) - Q)
            res = {"symmetry": sym, "trace": tr, "charge_sum": qsum, "idempotency": idem, "commutator": comm, "energy_functional": efun}
            if auf is not None:
                res["aufbau"] = auf
            if not nc[b]:
                for k, v in res.items():
                    info["ratio_" + k] = max(info.get("ratio_" + k, 0.0), v / bounds.get(k, 1.0))
                if sym > 1e-12:
                    return Outcome.fail("converged_density_not_symmetric", f"row {b}: |P-P^T| = {sym:.3e}", labels, nontrivial)
                if outside > 1e-12:
                    return Outcome.fail("density_on_padding_orbitals", f"row {b}: density outside the real orbitals, sum |P| = {outside:.3e}", labels, nontrivial)
                for k in ("trace", "charge_sum", "idempotency", "commutator", "energy_functional", "aufbau"):
                    bound = bounds[k]
                    if k in res and res[k] > bound:
                        tag = ":sp2" if case["sp2"][0] else ""
                        return Outcome.fail(f"converged_but_{k}_residual:{'uhf' if uhf else 'rhf'}:conv{case['conv'][0]}{tag}",
                                            f"row {b} flagged converged (eps={case['eps']:.0e}, start={case['p0']}, cap={case['cap']}): {k} residual {res[k]:.3e} > bound {bound:.3e}; all: "
                                            + ", ".join(f"{a}={v:.2e}" for a, v in res.items()), labels, nontrivial, **{k: res[k]})
                labels.append("flag:converged")
            else:
                labels.append("flag:notconverged")
                # the converse direction cannot be violated by a True flag; record how far from convergence it was
                info["notconv_commutator"] = max(info.get("notconv_commutator", 0.0), comm)
        return Outcome.ok(nontrivial, labels, **info)

    def simplify(self, case):
        if case.get("mates"):
            yield {k: v for k, v in case.items() if k not in ("mates", "padw", "row")}
        if case["p0"] != "default":
            yield dict(case, p0="default")
        if case["cap"] != 1000:
            yield dict(case, cap=1000)
        if case["sp2"][0]:
            yield dict(case, sp2=[False])
        if case["mol"].get("amp"):
            mm = dict(case["mol"], amp=0.0)
            mm.pop("disp", None)
            yield dict(case, mol=mm)
        if case["conv"] != [1]:
            yield dict(case, conv=[1])


# ------------------------------------------------------------------------------------------------- finite electronic temperature
KB = 8.61739e-5     # eV/K, the constant the code passes to Fermi_Q


@st.composite
def _tcase(draw):
    method = draw(st.sampled_from(["MNDO", "AM1", "PM3"]))
    rows = []
    for _ in range(draw(st.integers(1, 3))):
        kind = draw(st.sampled_from(["neutral", "neutral", "ion"]))
        pool = [t for t in M.names(method, (kind,), 5, 1) if M.n_orbitals(t) <= 20]
        rows.append({"method": method, "tpl": draw(st.sampled_from(pool)), "amp": 0.0})
    rows.sort(key=lambda r: -len(M.ALL[r["tpl"]]["Z"]))
    kind = draw(st.sampled_from([0, 0, 1]))
    return {"rows": rows, "order": draw(st.integers(0, 1)), "padw": draw(st.integers(0, 2)), "T": draw(st.sampled_from([300.0, 1500.0, 5000.0, 10000.0, 20000.0])),
            "conv": [kind, draw(st.sampled_from([0.0, 0.2, 0.5])) if kind == 0 else 0.0], "eps": 10.0 ** (-draw(st.integers(6, 10)))}


def _fermi_density(F, nel, T):
    ev, C = np.linalg.eigh(F)
    beta = 1.0 / (KB * T)
    lo, hi = ev[0] - 50.0, ev[-1] + 50.0
    for _ in range(200):
        mu = 0.5 * (lo + hi)
        f = 1.0 / (1.0 + np.exp(np.clip(beta * (ev - mu), -700, 700)))
        if 2.0 * f.sum() > nel:
            hi = mu
        else:
            lo = mu
    return 2.0 * (C * f) @ C.T, f


class FiniteTemperature(SubCheck):
    """scf_converger = [kind, alpha, 'T_el', T]: the converged density is the Fermi-occupied density of its own Fock operator,
    holds the right number of electrons and nothing on padding orbitals -- per row of a zero-padded batch."""
    name = "finite_temperature"
    budget = {"quick": 240, "thorough": 8000}
    weight = 1.0

    def strategy(self, tier):
        return _tcase()

    def oracle(self, case):
        from .. import refnddo as R

        mols = list(case["rows"])
        if case["order"]:
            mols = mols[::-1]
        rows = []
        for mc in mols:
            Z, x = M.geometry(mc)
            rows.append((list(Z), x, M.ALL[mc["tpl"]]["charge"]))
        width = max(len(r[0]) for r in rows) + case["padw"]
        Sx, X = pad_batch([(r[0], r[1]) for r in rows], width=width)
        conv = [case["conv"][0], case["conv"][1], "T_el", case["T"]]
        padded = any(len(r[0]) < width for r in rows) or len({M.n_orbitals(m["tpl"]) for m in mols}) > 1
        labels = ["method:" + mols[0]["method"], "T:%g" % case["T"], "conv:%d" % case["conv"][0], "rows:%d" % len(rows), "padded_orbitals:%s" % padded,
                  "ion:%s" % any(r[2] != 0 for r in rows)]
        nontrivial = padded or any(r[2] != 0 for r in rows)
        try:
            r = run_sp(Sx, X, method=mols[0]["method"], eps=case["eps"], conv=conv, sp2=[False], charges=np.array([q for _, _, q in rows]))
        except Exception as e:
            return Outcome.fail(f"exception:{type(e).__name__}", f"{type(e).__name__}: {str(e)[:200]}", labels, nontrivial)
        nc = notconv(r)
        alpha = case["conv"][1] if case["conv"][0] == 0 else 0.0
        e = case["eps"] / (1.0 - alpha)
        info = {}
        for b, (Z, x, Q) in enumerate(rows):
            if nc[b]:
                labels.append("flag:notconverged")
                continue
            n = len(Z)
            nel = sum(M.VALENCE[z] for z in Z) - Q
            P = tonp(r.mol.dm[b])
            if not np.isfinite(P).all():
                return Outcome.fail("nonfinite_flagged_converged", f"row {b}: NaN/inf in the density with notconverged False", labels, nontrivial)
            ref = R.Model(mols[b]["method"], list(Z), np.asarray(x))
            Pr = ref.from_seqm_P(P)
            outside = float(np.abs(P).sum() - np.abs(Pr).sum())
            tr = abs(np.trace(Pr) - nel)
            qsum = abs(float(tonp(r.mol.q[b])[:n].sum()) - Q)
            F = ref.fock(Pr)
            comm = float(np.abs(F @ Pr - Pr @ F).max())
            Pf, f = _fermi_density(F, nel, case["T"])
            fermi = float(np.abs(Pf - Pr).max())
            res = {"trace": tr, "charge_sum": qsum, "commutator": comm, "fermi_density": fermi}
            bounds = {"trace": 1e-7 + 200 * e, "charge_sum": 1e-7 + 200 * e, "commutator": FLOOR + 2000 * e, "fermi_density": FLOOR + 200 * e}
            for k, v in res.items():
                info["ratio_" + k] = max(info.get("ratio_" + k, 0.0), v / bounds[k])
            if outside > 1e-12:
                return Outcome.fail("density_on_padding_orbitals:finiteT", f"row {b} ({mols[b]['tpl']}, T={case['T']:g} K): density outside the real orbitals, sum |P| = {outside:.3e}", labels, nontrivial)
            for k in ("trace", "charge_sum", "commutator", "fermi_density"):
                if res[k] > bounds[k]:
                    return Outcome.fail(f"converged_but_{k}_residual:finiteT", f"row {b} ({mols[b]['tpl']}, charge {Q}, T={case['T']:g} K, batch {[m['tpl'] for m in mols]}, padw {case['padw']}) flagged converged: {k} residual {res[k]:.3e} > bound {bounds[k]:.3e}; all: "
                                        + ", ".join(f"{a}={v:.2e}" for a, v in res.items()), labels, nontrivial, **{k: res[k]})
            labels.append("flag:converged")
            if bool(((f > 1e-6) & (f < 1 - 1e-6)).any()):
                labels.append("fractional_occupations")
        return Outcome.ok(nontrivial, labels, **info)

    def simplify(self, case):
        if len(case["rows"]) > 1:
            for i in range(len(case["rows"])):
                yield dict(case, rows=case["rows"][:i] + case["rows"][i + 1:])
        if case["padw"]:
            yield dict(case, padw=0)


SUBCHECKS = [SelfConsistent(), FiniteTemperature()]
