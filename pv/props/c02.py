"""C02 -- energies invariant, vector outputs covariant under rigid motions (DESIGN 3/C02).

Oracles (all tied to the property statement):
 * torque: on a single rigidly moved geometry the net force and net torque vanish ("consequently net force and net
   torque vanish") -- needs no partner run, exposes frame singularities directly.
 * covariance: run x and x' = R x + t; scalars equal, vectors rotate with R.
 * excited: CIS/RPA excitation energies and oscillator strengths equal; NAC vectors rotate (up to the arbitrary
   overall sign of an eigenvector pair).
Orientation mixture puts ~55 % of the cases on exactly/nearly axis-aligned bonds (strategies.rigid_motion).
"""
import numpy as np
from hypothesis import strategies as st

from .. import molecules as M
from .. import strategies as S
from ..core import Outcome, SubCheck
from ..seqm_api import notconv, run_sp, summary, tonp

PROPERTY = "C02"
LEVEL = "exploration"
RULE = ("Hypothesis draws template molecule + displacement + rigid motion (Haar / exactly axis-aligned bond / tilted by "
        "10^-u rad / cube rotations; translations up to 1e3 A) x method (MNDO, AM1, PM3, PM6_SP, PM6) x force mode x "
        "solver; non-trivial = both SCFs converged, the rotation is not the identity (covariance) or the molecule has "
        ">= 2 atoms (torque); distinct = distinct case hash")
ASSUMPTIONS = ["SCF converges to the same solution for x and Rx+t (near-equilibrium templates)",
               "tolerances: scalars 2e-7 eV + 1e3*eps, vectors 2e-6 + 2e3*eps (>= 10x the largest deviation measured on "
               "generic orientations)"]

MODES = {"autodiff": None, "analytical": [True], "seminum": [True, "numerical"]}
METHODS = ["MNDO", "AM1", "PM3", "PM6_SP", "PM6"]


def heavy_axis_labels(Z, xyz, tol=1e-7):
    """axis alignment of real pairs that involve at least one non-hydrogen atom: set of '+x', '-x', ... for |1-cos|<tol"""
    labs = set()
    n = len(Z)
    for i in range(n):
        for j in range(n):
            if i == j or (Z[i] == 1 and Z[j] == 1):
                continue
            u = xyz[j] - xyz[i]
            u = u / np.linalg.norm(u)
            for name, a in S.AXES.items():
                if 1.0 - float(np.dot(u, a)) < tol:
                    labs.add(name)
    return labs


def min_polar_xy(Z, xyz):
    """smallest sin(angle to the z axis) over real pairs with at least one non-hydrogen atom"""
    best = 1.0
    n = len(Z)
    for i in range(n):
        for j in range(i + 1, n):
            if Z[i] == 1 and Z[j] == 1:
                continue
            u = xyz[j] - xyz[i]
            u = u / np.linalg.norm(u)
            best = min(best, float(np.hypot(u[0], u[1])))
    return best


GRADIENT_QUANTITIES = ("torque", "netforce", "force", "exc_force")


def bucket_for(quantity, method, Z, geoms):
    """root-cause signature. The only recorded finding is the polar-angle parametrisation of the PM6 (d-orbital)
    rotation matrices: gradients are wrong when a pair with a heavy atom is parallel to z (sin(theta) < 1e-9, the
    code switches branch at 1e-10). Everything else is reported under its own quantity/orientation bucket."""
    if method == "PM6" and quantity != "exception" and sum(1 for z in Z if 13 <= z <= 17) >= 2:
        return "pm6_dd_pair_rotation"
    if quantity != "exception" and any(heavy_axis_labels(Z, g) & {"+x", "-x"} for g in geoms):
        return "xaxis_frame_singularity"
    if method == "PM6" and quantity in GRADIENT_QUANTITIES and min(min_polar_xy(Z, g) for g in geoms) < 1e-9:
        return "pm6_zpole_gradient"
    ax = set()
    for g in geoms:
        ax |= heavy_axis_labels(Z, g)
    fam = "PM6" if method == "PM6" else "sp"
    if ax:
        return f"{quantity}:{fam}:axis[{','.join(sorted(ax))}]"
    return f"{quantity}:{fam}:generic"


def _extra(case):
    ex = {}
    if MODES[case.get("mode", "autodiff")] is not None:
        ex["analytical_gradient"] = list(MODES[case["mode"]])
    return ex


@st.composite
def _case(draw, excited=False):
    method = draw(st.sampled_from(METHODS if not excited else ["AM1", "PM3", "MNDO", "PM6_SP"]))
    mol = draw(S.molecule_case(method=method, kinds=("neutral", "ion") if not excited else ("neutral",),
                               max_atoms=6 if (method == "PM6" or excited) else 8, min_atoms=2))
    n = len(M.ALL[mol["tpl"]]["Z"])
    motion = draw(S.rigid_motion(n, allow_identity=False))
    mode = draw(st.sampled_from(["autodiff", "autodiff", "analytical", "seminum"]))
    if method == "PM6":
        mode = "autodiff"
    case = {"mol": mol, "motion": motion, "mode": mode, "eps": 10.0 ** (-draw(st.integers(8, 10)))}
    if excited:
        nov = M.n_ov(mol["tpl"])
        case["exc"] = {"method": draw(st.sampled_from(["cis", "rpa"])), "n_states": draw(st.integers(1, max(1, min(4, nov // 2))))}
        case["mode"] = "analytical"
    return case


def _run(case, xyz, Z, extra=None):
    m = M.ALL[case["mol"]["tpl"]]
    ex = _extra(case)
    if extra:
        ex.update(extra)
    return run_sp([Z], [xyz], method=case["mol"]["method"], eps=case["eps"], conv=(1,), charges=m["charge"], extra=ex)


class Torque(SubCheck):
    name = "torque"
    budget = {"quick": 900, "thorough": 20000}
    weight = 2.0

    def strategy(self, tier):
        return _case()

    def oracle(self, case):
        Z, x0 = M.geometry(case["mol"])
        x1, R, t = S.apply_motion(case["motion"], x0)
        method = case["mol"]["method"]
        labels = S.mol_labels(case["mol"], Z) + ["mode:" + case["mode"], "motion:" + case["motion"]["kind"]]
        ax = heavy_axis_labels(Z, x1, 1e-7)
        labels += ["heavyaxis:" + a for a in sorted(ax)] or ["heavyaxis:none"]
        if case["motion"]["kind"] == "near":
            labels.append("tilt:1e-%d" % case["motion"]["tilt_exp"])
        try:
            r = _run(case, x1, Z)
        except Exception as e:  # a valid molecule must be accepted
            return Outcome.fail(bucket_for("exception", method, Z, [x1]), f"{type(e).__name__}: {e}", labels)
        if notconv(r)[0]:
            return Outcome.inconclusive("scf_not_converged", labels)
        F = tonp(r.mol.force[0])[: len(Z)]
        c = x1.mean(axis=0)
        net = np.abs(F.sum(axis=0)).max()
        tor = np.abs(np.cross(x1 - c, F).sum(axis=0)).max()
        tol = 2e-6 + 2e3 * case["eps"]
        if case["mode"] != "autodiff" and max(Z) > 10:
            tol = 2e-4  # the evaluators' own finite-difference overlap derivatives (DESIGN tolerance table)
        if not np.isfinite(F).all():
            return Outcome.fail(bucket_for("nan_force", method, Z, [x1]), "non-finite force", labels)
        if net > tol:
            return Outcome.fail(bucket_for("netforce", method, Z, [x1]), f"|sum F|={net:.3e} > {tol:.1e}", labels, net=net)
        if tor > tol * max(1.0, np.abs(x1 - c).max()):
            return Outcome.fail(bucket_for("torque", method, Z, [x1]), f"|sum r x F|={tor:.3e} > {tol:.1e} (eV)", labels,
                                torque=tor)
        return Outcome.ok(True, labels, net=net, torque=tor)

    def simplify(self, case):
        c = dict(case)
        if case["mol"].get("amp", 0) != 0:
            m = dict(case["mol"], amp=0.0)
            m.pop("disp", None)
            yield dict(c, mol=m)
        if "stretch" in case["mol"]:
            m = dict(case["mol"])
            m.pop("stretch")
            yield dict(c, mol=m)
        if "t" in case["motion"]:
            mo = dict(case["motion"])
            mo.pop("t")
            yield dict(c, motion=mo)
        if case["motion"].get("spin"):
            yield dict(c, motion=dict(case["motion"], spin=0))
        if case["mode"] != "autodiff":
            yield dict(c, mode="autodiff")


class Covariance(SubCheck):
    name = "covariance"
    budget = {"quick": 500, "thorough": 12000}
    weight = 3.0

    def strategy(self, tier):
        return _case()

    def oracle(self, case):
        Z, x0 = M.geometry(case["mol"])
        x1, R, t = S.apply_motion(case["motion"], x0)
        method = case["mol"]["method"]
        n = len(Z)
        labels = S.mol_labels(case["mol"], Z) + ["mode:" + case["mode"], "motion:" + case["motion"]["kind"]]
        ax = heavy_axis_labels(Z, x1, 1e-7) | heavy_axis_labels(Z, x0, 1e-7)
        labels += ["heavyaxis:" + a for a in sorted(ax)] or ["heavyaxis:none"]
        try:
            a = _run(case, x0, Z)
            b = _run(case, x1, Z)
        except Exception as e:
            return Outcome.fail(bucket_for("exception", method, Z, [x0, x1]), f"{type(e).__name__}: {e}", labels)
        if notconv(a)[0] or notconv(b)[0]:
            return Outcome.inconclusive("scf_not_converged", labels)
        sa, sb = summary(a), summary(b)
        eps = case["eps"]
        stol = 2e-7 + 1e3 * eps
        vtol = 2e-6 + 2e3 * eps
        if case["mode"] != "autodiff" and max(Z) > 10:
            vtol = 2e-4
        nontriv = not np.allclose(R, np.eye(3), atol=1e-12)
        worst = {}
        for k in ("Etot", "Eelec", "Enuc", "Hf"):
            d = abs(sa[k] - sb[k])
            worst[k] = d
            # Eelec/Enuc are large numbers with opposite sign: relative round-off of 1e-13 * 1e3 eV
            if d > stol + 1e-12 * abs(sa[k]):
                return Outcome.fail(bucket_for("scalar_" + k, method, Z, [x0, x1]), f"{k}: {sa[k]!r} vs {sb[k]!r} (|d|={d:.3e})",
                                    labels, nontriv, **{k: d})
        norb = a.mol.norb[0].item() if hasattr(a.mol.norb, "__len__") else int(a.mol.norb)
        ea, eb = np.sort(sa["e_mo"].reshape(-1)[:]), np.sort(sb["e_mo"].reshape(-1)[:])
        if sa["e_mo"].shape == sb["e_mo"].shape:
            d = float(np.abs(sa["e_mo"] - sb["e_mo"]).max())
            worst["e_mo"] = d
            if d > 10 * stol:
                return Outcome.fail(bucket_for("e_mo", method, Z, [x0, x1]), f"orbital energies differ by {d:.3e}", labels, nontriv, e_mo=d)
        d = float(np.abs(sa["q"] - sb["q"]).max())
        worst["q"] = d
        if d > 10 * stol:
            return Outcome.fail(bucket_for("charges", method, Z, [x0, x1]), f"charges differ by {d:.3e}", labels, nontriv, q=d)
        if sa["gap"] is not None:
            d = float(np.abs(sa["gap"] - sb["gap"]).max())
            if d > 10 * stol:
                return Outcome.fail(bucket_for("gap", method, Z, [x0, x1]), f"gap differs by {d:.3e}", labels, nontriv, gap=d)
        d = float(np.abs(sa["force"] @ R.T - sb["force"]).max())
        worst["force"] = d
        if d > vtol:
            return Outcome.fail(bucket_for("force", method, Z, [x0, x1]), f"F' - F R^T max {d:.3e} > {vtol:.1e}", labels, nontriv, force=d)
        if "dipole" in sa and method != "PM6":
            Q = M.ALL[case["mol"]["tpl"]]["charge"]
            da, db = sa["dipole"], sb["dipole"]
            if Q == 0:
                d = float(np.abs(da @ R.T - db).max())
                worst["dipole"] = d
                if d > 1e-6 + 1e3 * eps:
                    return Outcome.fail(bucket_for("dipole", method, Z, [x0, x1]), f"dipole' - dipole R^T max {d:.3e}", labels, nontriv, dipole=d)
            else:
                # ions: origin dependent by Q*shift; compare after removing the part along the charge-centre shift
                c0, c1 = x0.mean(axis=0), x1.mean(axis=0)
                shift = (c1 - c0 @ R.T)  # x1 = (x0-c0)R^T + c0 + t
                resid = db - da @ R.T
                # resid must be kappa*Q*shift' for one kappa ~ 1/a0 conversions; check direction only when shift is large
                sh = x1.mean(axis=0) - (x0 @ R.T).mean(axis=0)
                if np.linalg.norm(sh) > 1e-6:
                    kappa = float(resid @ sh / (sh @ sh)) / Q
                    perp = resid - kappa * Q * sh
                    d = float(np.abs(perp).max())
                    worst["dipole_ion_perp"] = d
                    if d > 1e-6 * max(1.0, np.linalg.norm(sh)) + 1e3 * eps:
                        return Outcome.fail(bucket_for("dipole_ion", method, Z, [x0, x1]), f"ion dipole shift not parallel to translation: {d:.3e}",
                                            labels, nontriv, dipole=d)
                    # kappa must be the code's own length/charge->dipole unit: 1 e*A = 4.8032 D, in the code's a.u. 1.8897..
                    if abs(abs(kappa) - 4.80320) > 5e-3 and abs(abs(kappa) - 1.889762) > 5e-4 and abs(abs(kappa) - 1.0) > 1e-4:
                        return Outcome.fail(bucket_for("dipole_ion_kappa", method, Z, [x0, x1]), f"ion dipole shift factor {kappa}", labels, nontriv)
        return Outcome.ok(nontriv, labels, **worst)

    simplify = Torque.simplify


class Excited(SubCheck):
    name = "excited"
    budget = {"quick": 160, "thorough": 4000}
    weight = 4.0

    def strategy(self, tier):
        return _case(excited=True)

    def oracle(self, case):
        Z, x0 = M.geometry(case["mol"])
        x1, R, t = S.apply_motion(case["motion"], x0)
        method = case["mol"]["method"]
        labels = S.mol_labels(case["mol"], Z) + ["exc:" + case["exc"]["method"], "motion:" + case["motion"]["kind"]]
        ns = case["exc"]["n_states"]
        exc = {"method": case["exc"]["method"], "n_states": ns, "tolerance": 1e-8, "compute_transition_properties": True}
        extra = {"excited_states": exc, "active_state": 1, "scf_backward": 0}
        if case["exc"]["method"] == "cis" and ns >= 2:
            # NAC vectors are switched on through seqm_parameters['nonadiabatic']['compute_nac'] (dynamics/nac_utils.py).
            # (The first version of this check set a key the code does not read, so the NAC clause silently never ran.)
            extra["nonadiabatic"] = {"compute_nac": True}
        try:
            a = _run(case, x0, Z, extra={k: (dict(v) if isinstance(v, dict) else v) for k, v in extra.items()})
            b = _run(case, x1, Z, extra={k: (dict(v) if isinstance(v, dict) else v) for k, v in extra.items()})
        except Exception as e:
            if "A-B matrix has negative eigenvalues" in str(e):
                return Outcome.inconclusive("rpa_unstable_reference", labels)     # loud, legitimate refusal (C16 owns the stability clause)
            return Outcome.fail(bucket_for("exception", method, Z, [x0, x1]), f"{type(e).__name__}: {e}", labels)
        if notconv(a)[0] or notconv(b)[0]:
            return Outcome.inconclusive("scf_not_converged", labels)
        ea, eb = tonp(a.mol.cis_energies[0]), tonp(b.mol.cis_energies[0])
        k = min(len(ea), len(eb), ns)
        d = float(np.abs(ea[:k] - eb[:k]).max())
        worst = {"cis": d}
        if d > 5e-6:
            # Is it the recorded Davidson defect (a root is skipped and a higher one returned, depending on the orientation)? Then
            # both lists are subsets of one common spectrum: recompute with more states in both orientations.
            try:
                ex2 = {k_: (dict(v_) if isinstance(v_, dict) else v_) for k_, v_ in extra.items()}
                ex2["excited_states"] = dict(ex2["excited_states"], n_states=min(ns + 6, M.n_ov(case["mol"]["tpl"])))
                ex2.pop("nonadiabatic", None)
                a2 = _run(case, x0, Z, extra={k_: (dict(v_) if isinstance(v_, dict) else v_) for k_, v_ in ex2.items()})
                b2 = _run(case, x1, Z, extra={k_: (dict(v_) if isinstance(v_, dict) else v_) for k_, v_ in ex2.items()})
                fa_, fb_ = tonp(a2.mol.cis_energies[0]), tonp(b2.mol.cis_energies[0])
                kk = min(len(fa_), len(fb_))
                same_spectrum = float(np.abs(fa_[:kk - 1] - fb_[:kk - 1]).max()) < 5e-6
                member = all(np.abs(fa_ - v_).min() < 5e-6 for v_ in list(ea[:k]) + list(eb[:k]))
                if same_spectrum and member:
                    return Outcome.fail("davidson_skips_root_orientation_dependent", f"{ns} states requested: orientation A returns {ea[:k].round(4).tolist()}, orientation B {eb[:k].round(4).tolist()}; "
                                        f"both are subsets of the common spectrum {fa_[:k + 3].round(4).tolist()}", labels, True, cis=d)
            except Exception:
                pass
            return Outcome.fail(bucket_for("cis_energy", method, Z, [x0, x1]), f"excitation energies differ by {d:.3e}", labels, True, cis=d)
        # isolated active root?
        gaps = np.abs(np.diff(ea[: k + 1])) if len(ea) > 1 else np.array([1.0])
        isolated = len(ea) < 2 or abs(ea[1] - ea[0]) > 0.05
        Fa, Fb = tonp(a.mol.force[0])[: len(Z)], tonp(b.mol.force[0])[: len(Z)]
        if isolated:
            d = float(np.abs(Fa @ R.T - Fb).max())
            worst["force"] = d
            vtol = 2e-4 if max(Z) > 10 else 2e-5
            if d > vtol:
                return Outcome.fail(bucket_for("exc_force", method, Z, [x0, x1]), f"S1 force' - F R^T max {d:.3e}", labels, True, force=d)
        fa, fb = a.mol.oscillator_strength, b.mol.oscillator_strength
        if fa is not None and fb is not None:
            fa, fb = tonp(fa[0])[:k], tonp(fb[0])[:k]
            # sum over degenerate shells is invariant; compare per root only when isolated from neighbours
            # per-root comparison only for roots that are isolated from BOTH neighbours: the highest computed root is excluded
            # because its upper neighbour is unknown (it may be one member of a degenerate shell whose partner was not requested)
            ok_idx = [i for i in range(min(k, len(ea) - 1)) if all(abs(ea[i] - ea[j]) > 1e-3 for j in range(len(ea)) if j != i)]
            if ok_idx:
                d = float(np.abs(fa[ok_idx] - fb[ok_idx]).max())
                worst["osc"] = d
                if d > 1e-5:
                    return Outcome.fail(bucket_for("osc_strength", method, Z, [x0, x1]), f"oscillator strengths differ by {d:.3e}", labels, True, osc=d)
        na, nb = getattr(a.mol, "nac", None), getattr(b.mol, "nac", None)
        if "nonadiabatic" in extra and not (isinstance(na, dict) and isinstance(nb, dict)):
            return Outcome.fail("nac_requested_but_not_returned", "compute_nac was requested but molecule.nac is not a dict", labels, True)
        if isinstance(na, dict) and isinstance(nb, dict):
            labels.append("nac_compared")
            top = len(ea) - 1
            # True isolation is judged on the DENSE spectrum when it can be built (sp methods): the Davidson solver can skip the
            # partner of a degenerate pair at symmetric geometries (recorded C16 finding), which then is invisible in the computed
            # list -- PM6_SP AlCl3 (D3h), 4 states: NAC(S1,S2) of 13 1/A differed between orientations because S1 is one member of an
            # E pair whose partner was not returned. (Alarm of a background sweep at seed 4; the code's NAC is not at fault.)
            dense_ev = None
            if method != "PM6":
                try:
                    from .c16 import dense as _dense

                    dense_ev = np.linalg.eigvalsh(_dense(a.mol, 0)[0])
                except Exception:
                    dense_ev = None
            for key in na:
                i, j = key
                if i >= k or j >= k:
                    continue
                # The highest computed state is never compared: its upper neighbour is unknown. (First alarm of this clause on
                # the unchanged tree: stretched CO, 4 states requested, state 4 is one component of a Pi shell whose partner was
                # not computed; its NAC with S1 is purely perpendicular to the bond and depends on the arbitrary mixing inside the
                # shell -- 0.196 vs 0.287 between orientations / tolerances. The code is right.) Linear molecules are skipped
                # altogether for NACs: every Pi-type state is a member of a degenerate pair.
                if i >= top or j >= top or M.is_linear(case["mol"]["tpl"]):
                    continue
                if not all(abs(ea[s] - ea[u]) > 1e-2 for s in (i, j) for u in range(len(ea)) if u != s):
                    continue
                if dense_ev is not None and any(int((np.abs(dense_ev - ea[s]) < 1e-2).sum()) != 1 for s in (i, j)):
                    labels.append("nac_pair_skipped:hidden_degeneracy")
                    continue
                va, vb = tonp(na[key][0])[: len(Z)], tonp(nb[key][0])[: len(Z)]
                ra = va @ R.T
                d = min(float(np.abs(ra - vb).max()), float(np.abs(ra + vb).max()))
                scale = max(1.0, float(np.abs(va).max()))
                worst["nac"] = max(worst.get("nac", 0.0), d)
                if d > 2e-5 * scale:
                    return Outcome.fail(bucket_for("nac", method, Z, [x0, x1]), f"NAC({i},{j})' -+ NAC R^T max {d:.3e}", labels, True, nac=d)
        return Outcome.ok(True, labels, **worst)

    simplify = Torque.simplify


SUBCHECKS = [Torque(), Covariance(), Excited()]
