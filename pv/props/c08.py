"""C08 -- NVE dynamics is a second-order, time-reversible, momentum-conserving integrator with consistent bookkeeping
(DESIGN 3/C08).

Families of related runs of the repository's Molecular_Dynamics_Basic, read back from the HDF5 files it writes:
 stub-driven  (analytic, rotation/translation invariant pair springs; thousands of steps affordable)
   momentum      total linear and angular momentum constant to round-off
   reversal      n steps, velocities negated, n steps: back at the start
   order         dt, dt/2, dt/4 over the same physical time: position error ratio ~4, energy fluctuation ratio ~4, no drift
   bookkeeping   stored Ek / T / Ep are those of the stored velocities / coordinates of the same row (Ep re-evaluated by an
                 independent NumPy implementation of the stub potential); first-step displacement fixes the acceleration
                 unit constant against CODATA
 SCF-driven   (small sample: water, formaldehyde; couples the integrator to the real Electronic_Structure)
   momentum, stored Ep == energy of an independent single point at the stored coordinates
"""
import math
import os
import shutil
import tempfile

import h5py
import numpy as np
from hypothesis import strategies as st

from .. import molecules as M
from .. import stubforce
from ..core import Outcome, SubCheck
from ..seqm_api import Constants, Molecule, run_sp, settings, silence, tonp, torch

PROPERTY = "C08"
LEVEL = "exploration"
RULE = ("Hypothesis draws a zero-padded 2-molecule batch, spring stiffness 2-40 eV/A^2, dt in [0.05, 1] fs, T0 in [50, 1000] K, seed, "
        "remove_com mode; each case is a FAMILY of runs (dt, dt/2, dt/4; forward/reversed) compared with each other. SCF-driven sample: "
        "water / formaldehyde, 8-12 steps. non-trivial = kinetic energy > 0 and >= 20 steps per run; distinct = case hash")
ASSUMPTIONS = ["acceleration constant reference: 1 eV/(A amu) = 1.602176634e-19/(1e-10 * 1.66053906660e-27) m/s^2 (CODATA 2018)",
               "order bands [3.0, 5.2] for error ratios per halving (measured 3.6-4.3 on the unchanged tree at design time)",
               "drift observed over <= 2000 stub steps"]

ACC_CODATA = 1.602176634e-19 / (1e-10 * 1.66053906660e-27) * 1e10 / 1e30   # A/fs^2 per eV/(A amu)
S0 = np.array([[8, 1, 1, 0, 0], [6, 1, 1, 1, 1]])
X0 = np.array([[[0.0, 0.0, 0.0], [0.76, 0.59, 0.1], [-0.76, 0.59, -0.05], [0.0, 0.0, 0.0], [0.0, 0.0, 0.0]],
               [[4.0, 0.0, 0.0], [4.63, 0.63, 0.63], [3.37, -0.63, 0.63], [3.37, 0.63, -0.63], [4.63, -0.63, -0.63]]])


def _md(S, X, dt, T, k, workdir, tag, steps, seed, remove_com=None, vel=None, every=1):
    import seqm.MolecularDynamics as MDmod

    stubforce.install()
    s = {"method": "AM1", "scf_eps": 1e-8, "scf_converger": [1]}
    s[stubforce.KEY] = stubforce.spec_for(S.tolist(), X0.tolist(), k=k, stretch=1.05)
    prefix = os.path.join(workdir, tag)
    out = {"molid": [0, 1], "prefix": prefix, "print every": 0, "xyz": 0, "checkpoint every": 0,
           "h5": {"data": every, "coordinates": every, "velocities": every, "forces": every}}
    with silence():
        mol = Molecule(Constants(), s, torch.tensor(X), torch.tensor(S))
        if vel is not None:
            mol.velocities = torch.tensor(vel)
        md = MDmod.Molecular_Dynamics_Basic(seqm_parameters=s, Temp=T, timestep=dt, output=out)
        md.run(mol, steps=steps, remove_com=remove_com, seed=seed)
    res = []
    for m in (0, 1):
        with h5py.File(f"{prefix}.{m}.h5", "r") as f:
            res.append({k_: f[k_][...] for k_ in ("coordinates/values", "velocities/values", "forces/values", "data/thermo/Ep",
                                                   "data/thermo/Ek", "data/thermo/T", "data/steps")})
    return mol, res, s[stubforce.KEY]


@st.composite
def _fam_case(draw):
    return {"k": draw(st.sampled_from([2.0, 8.0, 20.0, 40.0])), "dt": draw(st.sampled_from([0.025, 0.05, 0.1, 0.2, 0.4, 0.8])),
            "T": draw(st.sampled_from([50.0, 300.0, 1000.0])), "seed": draw(st.integers(0, 10 ** 5)), "time": draw(st.sampled_from([16.0, 32.0])),
            "remove_com": draw(st.sampled_from([None, None, ["linear", 1], ["angular", 5]]))}


class StubFamily(SubCheck):
    name = "stub_family"
    budget = {"quick": 96, "thorough": 3000}
    weight = 3.0

    def strategy(self, tier):
        return _fam_case()

    def oracle(self, case):
        import seqm.MolecularDynamics as MDmod

        C = MDmod.CONSTANTS
        labels = ["k:%g" % case["k"], "dt:%g" % case["dt"], "T:%g" % case["T"], "remove_com:%s" % (case["remove_com"][0] if case["remove_com"] else None)]
        mass = tonp(Constants().mass)[S0]
        wd = tempfile.mkdtemp(prefix="c08_", dir=os.getcwd())
        rc = tuple(case["remove_com"]) if case["remove_com"] else None
        try:
            runs = {}
            for lvl in (0, 1, 2):
                dt = case["dt"] / 2 ** lvl
                n = int(round(case["time"] / dt))
                _, res, spec = _md(S0, X0, dt, case["T"], case["k"], wd, "r%d" % lvl, n, case["seed"], rc, every=2 ** lvl)
                runs[lvl] = res
            info = {}
            # Order and drift are asymptotic statements; they are judged only where the coarsest step resolves the fastest
            # vibration: y = omega_max dt <= 0.15 with omega_max^2 = (number of partners) k ACC / m_H. (The first version
            # judged every case: k = 20, dt = 0.8 has y = 0.7 and after 32 fs the phase error has saturated -- ratio 13.9;
            # and a drift estimate from quarter-window means over three periods fired on the oscillation itself.)
            y = math.sqrt(4.0 * case["k"] * ACC_CODATA / 1.008) * case["dt"]
            resolved = y <= 0.15
            labels.append("order_resolved" if resolved else "order_unresolved")
            for b in (0, 1):
                nat = int((S0[b] > 0).sum())
                m = mass[b, :nat]
                r0 = runs[0][b]
                V, Xc = r0["velocities/values"], r0["coordinates/values"]
                # momentum conservation along the coarsest run
                P = (m[None, :, None] * V).sum(axis=1)
                pscale = float((m[None, :, None] * np.abs(V)).sum(axis=1).max())
                dP = float(np.abs(P - P[0]).max()) / pscale
                info["dP_rel"] = max(info.get("dP_rel", 0.0), dP)
                if dP > 1e-10:
                    return Outcome.fail("linear_momentum_not_conserved", f"molecule {b}: total linear momentum changes by {dP:.3e} (relative) over {len(V) - 1} steps", labels, True)
                c = (m[None, :, None] * Xc).sum(axis=1) / m.sum()
                L = (m[None, :, None] * np.cross(Xc - c[:, None, :], V)).sum(axis=1)
                lscale = float((m[None, :] * np.linalg.norm(Xc - c[:, None, :], axis=2) * np.linalg.norm(V, axis=2)).sum(axis=1).max())
                dL = float(np.abs(L - L[0]).max()) / lscale
                info["dL_rel"] = max(info.get("dL_rel", 0.0), dL)
                if dL > 1e-9 and not rc:
                    return Outcome.fail("angular_momentum_not_conserved", f"molecule {b}: total angular momentum changes by {dL:.3e} (relative)", labels, True)
                # bookkeeping on every stored row of ALL three runs: the finer runs write every 2nd / 4th step with no other reporter
                # active, the configuration in which a seeded change wrote the thermo values one step late (first version: coarsest
                # run only, output stride 1)
                ndof = 3.0 * nat - (0.0 if not rc else (6.0 if rc[0] == "angular" else 3.0))
                Sfull = S0[b:b + 1]
                for lvl in (0, 1, 2):
                    rr = runs[lvl][b]
                    Vl, Xl = rr["velocities/values"], rr["coordinates/values"]
                    stride = 2 ** lvl
                    ek = 0.5 * (m[None, :, None] * Vl ** 2).sum(axis=(1, 2)) * C.KINETIC_ENERGY_SCALE
                    d = float(np.abs(ek - rr["data/thermo/Ek"]).max() / max(1e-300, np.abs(ek).max()))
                    if d > 1e-12:
                        return Outcome.fail("stored_kinetic_energy_not_of_stored_velocities", f"molecule {b}, output stride {stride}: stored Ek differs from sum 1/2 m v^2 of the stored velocities of the same row by {d:.3e} (relative)", labels, True)
                    tt = ek * C.TEMPERATURE_SCALE / (0.5 * ndof)
                    d = float(np.abs(tt - rr["data/thermo/T"]).max() / max(1e-300, np.abs(tt).max()))
                    if d > 1e-12:
                        return Outcome.fail("stored_temperature_inconsistent", f"molecule {b}, output stride {stride}: stored T differs from 2 Ek/(n_dof k_B) by {d:.3e} (relative)", labels, True)
                    for j in (0, 1, len(Xl) // 2, len(Xl) - 1):
                        xx = X0[b:b + 1].copy()
                        xx[0, :nat] = Xl[j]
                        sp1 = {"k": spec["k"], "r0": [spec["r0"][b]], "species": [spec["species"][b]]}
                        ep = float(stubforce.energy_of(sp1, Sfull, xx)[0])
                        if abs(ep - rr["data/thermo/Ep"][j]) > 1e-10 * max(1.0, abs(ep)):
                            return Outcome.fail("stored_potential_energy_not_of_stored_coordinates", f"molecule {b}, output stride {stride}, row {j}: stored Ep {rr['data/thermo/Ep'][j]!r} vs potential at the stored coordinates {ep!r}", labels, True)
                # acceleration unit: v(1) - v(0) = dt/2 (a0 + a1), a = F/m * ACC
                F = r0["forces/values"]
                a_code = (V[1] - V[0]) / (0.5 * case["dt"])
                a_ref = (F[0] + F[1]) / m[:, None] * ACC_CODATA
                if not rc:
                    d = float(np.abs(a_code - a_ref).max() / max(1e-300, np.abs(a_ref).max()))
                    info["acc_rel"] = max(info.get("acc_rel", 0.0), d)
                    if d > 1e-6:
                        return Outcome.fail("acceleration_unit_constant", f"molecule {b}: velocity change of the first step / (dt/2 (F0+F1)/m) deviates from the CODATA conversion by {d:.3e} (relative)", labels, True)
                # order: positions at the final time; energy fluctuations
                xf = [runs[l][b]["coordinates/values"][-1] for l in (0, 1, 2)]
                e1, e2 = float(np.abs(xf[0] - xf[1]).max()), float(np.abs(xf[1] - xf[2]).max())
                if resolved and e2 > 1e-10 and e1 > 1e-9:
                    ratio = e1 / e2
                    info["pos_ratio_min"] = min(info.get("pos_ratio_min", 99.0), ratio)
                    if not (3.0 <= ratio <= 5.6) and not rc:
                        return Outcome.fail("trajectory_not_second_order", f"molecule {b}: |x_dt - x_dt/2| / |x_dt/2 - x_dt/4| = {ratio:.2f} at t = {case['time']} fs (second order gives 4)", labels, True, ratio=ratio)
                fl = []
                for l in (0, 1, 2):
                    E = runs[l][b]["data/thermo/Ep"] + runs[l][b]["data/thermo/Ek"]
                    fl.append(float(np.abs(E - E[0]).max()))
                if resolved and fl[1] > 1e-10 and fl[2] > 1e-10 and not rc:
                    r1, r2 = fl[0] / fl[1], fl[1] / fl[2]
                    info["efluct_ratio_min"] = min(info.get("efluct_ratio_min", 99.0), r1, r2)
                    if not (3.0 <= r2 <= 5.2):
                        return Outcome.fail("energy_fluctuation_not_second_order", f"molecule {b}: energy fluctuation ratios per halving {r1:.2f}, {r2:.2f} (second order gives 4)", labels, True, ratio=r2)
            # centre-of-mass removal on a system whose total (angular) momentum is already zero is the identity: the run with
            # removal must retrace the run without it, started from the same velocities (so order, reversibility and energy
            # conservation carry over to every removal mode and stride). A seeded change that "restored" the kinetic energy of the
            # TARGET temperature at every stride conserved momentum and passed every check that was switched off under removal.
            if rc:
                n0 = int(round(case["time"] / case["dt"]))
                v0 = np.zeros_like(X0)
                for b in (0, 1):
                    nat = int((S0[b] > 0).sum())
                    v0[b, :nat] = runs[0][b]["velocities/values"][0]
                _, rn, _ = _md(S0, X0, case["dt"], case["T"], case["k"], wd, "nocom", n0, case["seed"], None, vel=v0)
                for b in (0, 1):
                    xa, xb = runs[0][b]["coordinates/values"], rn[b]["coordinates/values"]
                    c0 = xa[0].mean(axis=0) - xb[0].mean(axis=0)          # the fresh start is translated to the origin, the supplied one is not
                    d = float(np.abs((xa - xa[0][None]) - (xb - xb[0][None])).max())
                    info["com_noop"] = max(info.get("com_noop", 0.0), d)
                    if d > 1e-8:
                        return Outcome.fail("com_removal_changes_momentum_free_trajectory", f"molecule {b}: with remove_com={rc} the displacements differ from the run without removal (same start velocities, zero total momentum) by {d:.3e} A over {n0} steps", labels, True, d=d)
            # no secular drift: one long run covering >= 15 periods of the SLOWEST vibration (heavy-heavy pair springs:
            # omega_slow^2 ~ 2 k ACC / 16), window means over >= 3 slow periods each. (A first version timed the run by the
            # fastest mode: 100 fs covered less than one slow period and the window means differed by the oscillation itself.)
            w_slow = math.sqrt(2.0 * case["k"] * ACC_CODATA / 16.0)
            t_long = 15.0 * 2 * math.pi / w_slow
            if y <= 0.3 and not rc and t_long / case["dt"] <= 6000:
                nlong = int(round(t_long / case["dt"]))
                labels.append("drift_checked")
                _, rl, _ = _md(S0, X0, case["dt"], case["T"], case["k"], wd, "long", nlong, case["seed"], None, every=max(1, nlong // 600))
                for b in (0, 1):
                    E = rl[b]["data/thermo/Ep"] + rl[b]["data/thermo/Ek"]
                    w = max(10, len(E) // 5)
                    amp = float(np.abs(E - E.mean()).max())
                    drift = abs(float(E[-w:].mean() - E[:w].mean()))
                    info["drift_over_amp"] = max(info.get("drift_over_amp", 0.0), drift / max(amp, 1e-300))
                    if drift > 0.3 * amp + 1e-12:
                        return Outcome.fail("energy_drift", f"molecule {b}: over {nlong} steps ({t_long:.0f} fs) the mean total energy moves by {drift:.3e} eV, fluctuation amplitude {amp:.3e} eV", labels, True)
            # reversal
            n = int(round(case["time"] / case["dt"]))
            mol, res, _ = _md(S0, X0, case["dt"], case["T"], case["k"], wd, "fwd", n, case["seed"], None)
            xs = tonp(mol.coordinates).copy()
            vrev = -tonp(mol.velocities)
            mol2, res2, _ = _md(S0, xs, case["dt"], case["T"], case["k"], wd, "rev", n, case["seed"], None, vel=vrev)
            for b in (0, 1):
                nat = int((S0[b] > 0).sum())
                d = float(np.abs(res2[b]["coordinates/values"][-1] - res[b]["coordinates/values"][0]).max())
                info["reversal"] = max(info.get("reversal", 0.0), d)
                if d > 1e-9:
                    return Outcome.fail("not_time_reversible", f"molecule {b}: after {n} steps forward, velocity reversal and {n} steps, the start is missed by {d:.3e} A", labels, True, d=d)
            return Outcome.ok(True, labels, **info)
        finally:
            shutil.rmtree(wd, ignore_errors=True)


@st.composite
def _scf_case(draw):
    return {"tpl": draw(st.sampled_from(["H2O", "H2CO", "NH3"])), "method": draw(st.sampled_from(["AM1", "PM3"])), "dt": draw(st.sampled_from([0.2, 0.5])),
            "steps": draw(st.integers(8, 12)), "seed": draw(st.integers(0, 1000)), "reuse_P": draw(st.booleans())}


class SCFDriven(SubCheck):
    name = "scf_driven"
    budget = {"quick": 32, "thorough": 600}
    weight = 10.0

    def strategy(self, tier):
        return _scf_case()

    def oracle(self, case):
        from seqm.MolecularDynamics import CONSTANTS, Molecular_Dynamics_Basic

        Z, x = M.geometry({"tpl": case["tpl"], "amp": 0.0})
        labels = ["tpl:" + case["tpl"], "method:" + case["method"], "reuse_P:%s" % case["reuse_P"]]
        s = settings(case["method"], 1e-9, (1,), (False,))
        wd = tempfile.mkdtemp(prefix="c08s_", dir=os.getcwd())
        try:
            prefix = os.path.join(wd, "scf")
            out = {"molid": [0], "prefix": prefix, "print every": 0, "xyz": 0, "checkpoint every": 0, "h5": {"data": 1, "coordinates": 1, "velocities": 1, "forces": 1}}
            with silence():
                mol = Molecule(Constants(), s, torch.tensor(np.array([x])), torch.tensor(np.array([Z])))
                md = Molecular_Dynamics_Basic(seqm_parameters=s, Temp=300.0, timestep=case["dt"], output=out)
                md.run(mol, steps=case["steps"], remove_com=None, seed=case["seed"], reuse_P=case["reuse_P"])
            with h5py.File(prefix + ".0.h5", "r") as f:
                Xc, V, F, Ep, Ek = (f[k][...] for k in ("coordinates/values", "velocities/values", "forces/values", "data/thermo/Ep", "data/thermo/Ek"))
            m = tonp(Constants().mass)[np.array(Z)]
            P = (m[None, :, None] * V).sum(axis=1)
            dP = float(np.abs(P - P[0]).max()) / float((m[None, :, None] * np.abs(V)).sum(axis=1).max())
            if dP > 1e-9:
                return Outcome.fail("linear_momentum_not_conserved:scf", f"total linear momentum changes by {dP:.3e} (relative)", labels, True)
            worst = 0.0
            for j in (0, len(Xc) // 2, len(Xc) - 1):
                r = run_sp([Z], [Xc[j]], method=case["method"], eps=1e-10)
                d = abs(float(r.mol.Etot[0]) - float(Ep[j]))
                worst = max(worst, d)
                if d > 2e-6:
                    return Outcome.fail("stored_potential_energy_not_of_stored_coordinates:scf", f"row {j}: stored Ep {float(Ep[j]):.8f} vs single point at the stored coordinates {float(r.mol.Etot[0]):.8f}", labels, True, d=d)
                dF = float(np.abs(tonp(r.mol.force[0]) - F[j]).max())
                if dF > 2e-5:
                    return Outcome.fail("stored_force_not_of_stored_coordinates:scf", f"row {j}: stored force differs from the single-point force by {dF:.3e}", labels, True)
            ek = 0.5 * (m[None, :, None] * V ** 2).sum(axis=(1, 2)) * CONSTANTS.KINETIC_ENERGY_SCALE
            if float(np.abs(ek - Ek).max()) > 1e-12 * max(1.0, float(np.abs(ek).max())):
                return Outcome.fail("stored_kinetic_energy_not_of_stored_velocities:scf", "stored Ek differs from the stored velocities", labels, True)
            E = Ep + Ek
            return Outcome.ok(True, labels, Ep_vs_single_point=worst, energy_fluct=float(np.abs(E - E[0]).max()), dP_rel=dP)
        finally:
            shutil.rmtree(wd, ignore_errors=True)


SUBCHECKS = [StubFamily(), SCFDriven()]
