"""C04 -- the SCF answer does not depend on which solver path produced it (DESIGN 3/C04).

Differential oracle over PAIRS of solver configurations and start densities on near-equilibrium closed-shell molecules with a
HOMO-LUMO gap above 2 eV: energy, forces, charges and orbital energies agree within a small multiple of the threshold; along an
MD-like sequence of neighbouring geometries the carried density does not change the answer; tightening the threshold approaches
one limit (envelope test on an eps ladder against an eps = 1e-12 reference).
"""
import numpy as np
from hypothesis import strategies as st

from .. import molecules as M
from .. import strategies as S
from ..core import Outcome, SubCheck
from ..seqm_api import notconv, run_sp, tonp

PROPERTY = "C04"
LEVEL = "exploration"
RULE = ("Hypothesis draws a near-equilibrium closed-shell neutral template (displacement <= 0.05 A, gap > 2 eV measured) x an unordered "
        "pair of solver configurations out of {fixed alpha 0/0.3/0.6, adaptive, Pulay, adaptive+SP2, Pulay+SP2, UHF singlet (adaptive)} x "
        "start density {cold, converged density of a neighbouring geometry, that + symmetric noise} along a 3-5 step random walk "
        "(0.02-0.05 A per step); separate eps ladder 1e-5..1e-11 vs 1e-12. non-trivial = two different configurations, all runs "
        "converged, gap rule met; distinct = case hash")
ASSUMPTIONS = ["tolerance model: dE <= 1e-8 + 30 eps/(1-alpha) (+ 3e2 sp2_tol), dF <= 1e-7 + 3e3 eps/(1-alpha) (+ 3e3 sp2_tol), dq, de_mo likewise; calibrated maxima are reported per run",
               "molecules with several SCF solutions are outside the property's quantifier; a pair that differs by more than 1e-3 eV in energy is reported under its own bucket (other_scf_solution) because it is NOT excluded silently"]

CONFIGS = {
    "fixed0": dict(conv=[0, 0.0], sp2=[False], uhf=False), "fixed3": dict(conv=[0, 0.3], sp2=[False], uhf=False),
    "fixed6": dict(conv=[0, 0.6], sp2=[False], uhf=False), "adaptive": dict(conv=[1], sp2=[False], uhf=False),
    "pulay": dict(conv=[2], sp2=[False], uhf=False), "adaptive_sp2": dict(conv=[1], sp2=[True, 1e-7], uhf=False),
    "pulay_sp2": dict(conv=[2], sp2=[True, 1e-7], uhf=False), "uhf_singlet": dict(conv=[1], sp2=[False], uhf=True),
}


def _alpha(cfg):
    return cfg["conv"][1] if cfg["conv"][0] == 0 else 0.0


@st.composite
def _pair_case(draw):
    method = draw(st.sampled_from(M.METHODS_SP))
    pool = [t for t in M.names(method, ("neutral",), 7, 2)]
    tpl = draw(st.sampled_from(pool))
    n = len(M.ALL[tpl]["Z"])
    a = draw(st.sampled_from(sorted(CONFIGS)))
    b = draw(st.sampled_from([k for k in sorted(CONFIGS) if k != a]))
    return {"mol": {"method": method, "tpl": tpl, "amp": 0.05, "disp": draw(st.lists(S.q3, min_size=3 * n, max_size=3 * n))},
            "a": a, "b": b, "eps": 10.0 ** (-draw(st.integers(6, 10))), "walk": draw(st.integers(0, 4)), "wseed": draw(st.integers(0, 10 ** 5)),
            "start": draw(st.sampled_from(["cold", "previous", "perturbed"]))}


def _run(Z, x, method, cfg, eps, P0=None):
    return run_sp([Z], [x], method=method, eps=eps, conv=cfg["conv"], sp2=cfg["sp2"], uhf=cfg["uhf"], P0=P0)


def _numbers(r, norb):
    e = tonp(r.mol.e_mo[0])
    e = e[:norb] if e.ndim == 1 else e[0, :norb]
    return float(r.mol.Etot[0]), tonp(r.mol.force[0]), tonp(r.mol.q[0]), e


class SolverPairs(SubCheck):
    name = "solver_pairs"
    budget = {"quick": 480, "thorough": 12000}
    weight = 4.0

    def strategy(self, tier):
        return _pair_case()

    def oracle(self, case):
        Z, x = M.geometry(case["mol"])
        method = case["mol"]["method"]
        norb = sum(1 if z == 1 else 4 for z in Z)
        A, B = CONFIGS[case["a"]], CONFIGS[case["b"]]
        labels = ["method:" + method, "a:" + case["a"], "b:" + case["b"], "start:" + case["start"], "walk:%d" % case["walk"], "eps:1e%d" % round(np.log10(case["eps"]))]
        eps = case["eps"]
        rng = np.random.default_rng(case["wseed"])
        dens = {"a": None, "b": None}
        worst = {}
        geom = x.copy()
        for step in range(case["walk"] + 1):
            if step:
                geom = geom + rng.normal(size=geom.shape) * 0.012      # ~0.02-0.05 A per step
            out = {}
            for key, cfg in (("a", A), ("b", B)):
                P0 = None
                if step and case["start"] != "cold" and dens[key] is not None:
                    P0 = dens[key].clone()
                    if case["start"] == "perturbed":
                        import torch

                        N = torch.tensor(rng.normal(size=tuple(P0.shape[-2:])) * 0.01)
                        P0 = P0 + 0.5 * (N + N.T) * (P0 != 0).to(P0.dtype)
                try:
                    r = _run(Z, geom, method, cfg, eps, P0)
                except Exception as e:
                    return Outcome.fail(f"exception:{case[key]}:{type(e).__name__}", f"{case[key]}: {type(e).__name__}: {str(e)[:160]}", labels)
                if notconv(r)[0]:
                    return Outcome.inconclusive("scf_not_converged:" + case[key], labels)
                dens[key] = r.mol.dm
                out[key] = _numbers(r, norb)
            if step == 0:
                nocc = M.n_electrons(case["mol"]["tpl"]) // 2
                gap = out["a"][3][nocc] - out["a"][3][nocc - 1] if nocc < norb else 99.0
                if gap < 2.0:
                    return Outcome.inconclusive("gap_below_2eV", labels)
            amax = max(_alpha(A), _alpha(B))
            s2 = max(A["sp2"][1] if A["sp2"][0] else 0.0, B["sp2"][1] if B["sp2"][0] else 0.0)
            tE = 1e-8 + 30 * eps / (1 - amax) + 3e2 * s2
            tF = 1e-7 + 3e3 * eps / (1 - amax) + 3e3 * s2
            dE = abs(out["a"][0] - out["b"][0])
            dF = float(np.abs(out["a"][1] - out["b"][1]).max())
            dq = float(np.abs(out["a"][2] - out["b"][2]).max())
            de = float(np.abs(out["a"][3] - out["b"][3]).max())
            for k_, v_, t_ in (("dE", dE, tE), ("dF", dF, tF), ("dq", dq, tF), ("de_mo", de, 10 * tF)):
                worst[k_ + "_over_tol"] = max(worst.get(k_ + "_over_tol", 0.0), v_ / t_)
            if dE > 1e-3:
                # which of the two deviates? tie-break with two further paths (plain adaptive mixing and plain Pulay, cold start)
                refs = []
                for rk in ("adaptive", "fixed3"):
                    try:
                        rr = _run(Z, geom, method, CONFIGS[rk], eps)
                        if not notconv(rr)[0]:
                            refs.append(float(rr.mol.Etot[0]))
                    except Exception:
                        pass
                dev = [k_ for k_ in ("a", "b") if refs and min(abs(out[k_][0] - e_) for e_ in refs) > 1e-3]
                devname = "+".join(sorted(case[k_] for k_ in dev)) or "undetermined"
                msg = (f"step {step}: {case['a']} gives Etot {out['a'][0]:.6f}, {case['b']} gives {out['b'][0]:.6f}, tie-break runs {['%.6f' % e_ for e_ in refs]} "
                       f"(all flagged converged, gap {gap:.2f} eV, start {case['start']}); deviating: {devname}")
                if devname in ("pulay_sp2", "pulay", "pulay+pulay_sp2"):
                    # recorded finding: Pulay DIIS combined with SP2 purification converges, flagged converged, to a state tens of eV
                    # above the ground state (MNDO PH3: -158.85 vs -198.33 eV) although adaptive, adaptive+SP2 and plain Pulay agree
                    return Outcome.fail("pulay_high_energy_state", msg, labels, True, dE=dE)
                return Outcome.fail(f"other_scf_solution:{devname}", msg, labels, True, dE=dE)
            for k_, v_, t_ in (("energy", dE, tE), ("force", dF, tF), ("charges", dq, tF), ("orbital_energies", de, 10 * tF)):
                if v_ > t_:
                    return Outcome.fail(f"solvers_disagree:{k_}:{'+'.join(sorted((case['a'], case['b'])))}", f"step {step} (start {case['start']}): {k_} differs by {v_:.3e} > {t_:.1e} "
                                        f"between {case['a']} and {case['b']} at eps={eps:.0e}", labels, True, **{k_: v_})
        return Outcome.ok(True, labels, **worst)


@st.composite
def _ladder_case(draw):
    method = draw(st.sampled_from(M.METHODS_SP))
    tpl = draw(st.sampled_from(M.names(method, ("neutral",), 6, 2)))
    n = len(M.ALL[tpl]["Z"])
    return {"mol": {"method": method, "tpl": tpl, "amp": 0.05, "disp": draw(st.lists(S.q3, min_size=3 * n, max_size=3 * n))},
            "cfg": draw(st.sampled_from(["fixed3", "adaptive", "pulay", "uhf_singlet"]))}


class EpsLadder(SubCheck):
    name = "eps_ladder"
    budget = {"quick": 160, "thorough": 4000}
    weight = 4.0

    def strategy(self, tier):
        return _ladder_case()

    def oracle(self, case):
        Z, x = M.geometry(case["mol"])
        method = case["mol"]["method"]
        cfg = CONFIGS[case["cfg"]]
        labels = ["method:" + method, "cfg:" + case["cfg"]]
        ref = _run(Z, x, method, CONFIGS["pulay"], 1e-12)
        if notconv(ref)[0]:
            return Outcome.inconclusive("reference_not_converged", labels)
        E0, F0 = float(ref.mol.Etot[0]), tonp(ref.mol.force[0])
        errs = []
        for k in (5, 7, 9, 11):
            r = _run(Z, x, method, cfg, 10.0 ** -k)
            if notconv(r)[0]:
                return Outcome.inconclusive("scf_not_converged", labels)
            dE, dF = abs(float(r.mol.Etot[0]) - E0), float(np.abs(tonp(r.mol.force[0]) - F0).max())
            if dE > 1e-3:
                return Outcome.inconclusive("other_scf_solution_than_reference", labels)
            errs.append((10.0 ** -k, dE, dF))
            a = _alpha(cfg)
            if dE > 1e-9 + 30 * 10.0 ** -k / (1 - a) or dF > 1e-8 + 3e3 * 10.0 ** -k / (1 - a):
                return Outcome.fail(f"threshold_envelope:{case['cfg']}", f"eps=1e-{k}: |E - E_limit| = {dE:.3e}, |F - F_limit| = {dF:.3e} exceed the envelope", labels, True)
        if errs[-1][2] > errs[0][2] + 1e-9 and errs[-1][2] > 1e-8:
            return Outcome.fail(f"tightening_does_not_approach_limit:{case['cfg']}", f"force error at eps=1e-11 ({errs[-1][2]:.3e}) above the one at eps=1e-5 ({errs[0][2]:.3e})", labels, True)
        return Outcome.ok(True, labels, dF_at_1e5_over_eps=errs[0][2] / 1e-5, dF_at_1e11=errs[-1][2])


SUBCHECKS = [SolverPairs(), EpsLadder()]
