"""C19 -- non-interacting fragments are additive; the pair cutoff acts as documented (DESIGN 3/C19).

 additivity : dE(R) = E(A...B) - E(A) - E(B) for neutral closed-shell fragments separated by R in [8, 500] A along a drawn
              direction: envelope |dE| <= 0.05 eV (8/R)^3, R^-3 decay in the asymptotic region (dE(2R)/dE(R) = 1/8 +- 25 % for R >= 64 A
              unless |dE| < 1e-11), fragment forces / charges / orbital energies approach the isolated ones
 continuity : with the default (infinite) pair cutoff nothing is dropped at any distance: no jump of dE when R crosses the 40 bohr
              overlap cutoff (21.17 A) or any other drawn radius
 cutoff     : finite pair_outer_cutoff: (i) above every pair distance -> bitwise the default result; (ii) between the largest
              intra-fragment and the smallest inter-fragment distance -> exactly E(A) + E(B), isolated forces and charges
"""
import math

import numpy as np
from hypothesis import strategies as st

from .. import molecules as M
from .. import strategies as S
from ..core import Outcome, SubCheck
from ..seqm_api import notconv, pad_batch, run_sp, tonp

PROPERTY = "C19"
LEVEL = "exploration"
RULE = ("Hypothesis draws two neutral closed-shell templates (2-6 atoms), a separation R = 8 * (500/8)^u, a direction and a relative "
        "orientation, method, and for the cutoff sub-check a cutoff class {above all, between intra and inter}. non-trivial = both fragments "
        "have >= 3 atoms or a non-zero dipole; distance decade recorded; distinct = case hash")
ASSUMPTIONS = ["envelope = 14.4 eV A (2 mu_A mu_B + 0.3 (mu_A + mu_B) + 0.2) / R^3 with the isolated fragments' dipoles in e A; decay ratio one-sided <= 1.25/8",
               "all energies at scf_eps 1e-11, adaptive mixing"]


@st.composite
def _frag_case(draw, cutoff=False):
    method = draw(st.sampled_from(M.METHODS_SP))
    pool = [t for t in M.names(method, ("neutral",), 6, 2)]
    a, b = draw(st.sampled_from(pool)), draw(st.sampled_from(pool))
    u = draw(st.integers(0, 1000)) / 1000.0
    case = {"method": method, "a": a, "b": b, "R": round(8.0 * (500.0 / 8.0) ** u, 3), "dir": [draw(S.q3) for _ in range(3)], "q": [draw(S.q3) for _ in range(4)]}
    if cutoff:
        case["cut"] = "between" if draw(st.integers(0, 2)) else "above_all"
        case["R"] = round(8.0 * (60.0 / 8.0) ** u, 3)
    return case


def _fragments(case, R=None):
    R = case["R"] if R is None else R
    Za, xa = M.geometry({"tpl": case["a"], "amp": 0.0})
    Zb, xb = M.geometry({"tpl": case["b"], "amp": 0.0})
    d = np.array(case["dir"], dtype=float)
    d = d / np.linalg.norm(d) if np.linalg.norm(d) > 1e-3 else np.array([0.48, -0.6, 0.64])
    Rq = S._quat_to_R(case["q"])
    xa = xa - xa.mean(axis=0)
    xb = (xb - xb.mean(axis=0)) @ Rq.T + d * R
    return (list(Za), xa), (list(Zb), xb)


def _joint(fa, fb):
    Z = fa[0] + fb[0]
    X = np.concatenate([fa[1], fb[1]])
    order = sorted(range(len(Z)), key=lambda i: -Z[i])      # stable: keeps the sorted-species convention
    return [Z[i] for i in order], X[order], order


def _sp(Z, X, method, extra=None, P0=None):
    return run_sp([Z], [X], method=method, eps=1e-11, conv=(1,), extra=extra, P0=P0)


def _product_density(ra, rb, order, na, nb):
    """density of the non-interacting fragment product A (+) B in the atom order of the joint system (4 slots per atom)"""
    import torch

    Pa, Pb = ra.mol.dm[0], rb.mol.dm[0]
    n = na + nb
    P = torch.zeros(4 * n, 4 * n, dtype=Pa.dtype)
    for i_new, i_old in enumerate(order):
        for j_new, j_old in enumerate(order):
            if i_old < na and j_old < na:
                P[4 * i_new:4 * i_new + 4, 4 * j_new:4 * j_new + 4] = Pa[4 * i_old:4 * i_old + 4, 4 * j_old:4 * j_old + 4]
            elif i_old >= na and j_old >= na:
                P[4 * i_new:4 * i_new + 4, 4 * j_new:4 * j_new + 4] = Pb[4 * (i_old - na):4 * (i_old - na) + 4, 4 * (j_old - na):4 * (j_old - na) + 4]
    return P.unsqueeze(0)


class Additivity(SubCheck):
    name = "additivity"
    budget = {"quick": 400, "thorough": 10000}
    weight = 4.0

    def strategy(self, tier):
        return _frag_case()

    def oracle(self, case):
        method = case["method"]
        labels = ["method:" + method, "decade:" + ("8-16" if case["R"] < 16 else "16-64" if case["R"] < 64 else "64-200" if case["R"] < 200 else ">=200")]
        fa, fb = _fragments(case)
        try:
            ra, rb = _sp(fa[0], fa[1], method), _sp(fb[0], fb[1], method)
            if notconv(ra)[0] or notconv(rb)[0]:
                return Outcome.inconclusive("scf_not_converged", labels)
            Ea, Eb = float(ra.mol.Etot[0]), float(rb.mol.Etot[0])

            def dE(R):
                # Additivity is a property of the MODEL at the fragment-product state: the joint SCF is started from the
                # block-diagonal density of the isolated fragments. (A cold start can land on another SCF solution of a fragment
                # that has several -- PM3 AlCl: a nearly covalent one that every solver finds for the monomer and an ionic one
                # 1.95 eV lower that adaptive mixing finds for the dimer -- which is SCF multistability, C04's subject, and made
                # the first version report a 3.9 eV 'non-additivity'.)
                f1, f2 = _fragments(case, R)
                Z, X, order = _joint(f1, f2)
                r = _sp(Z, X, method, P0=_product_density(ra, rb, order, len(f1[0]), len(f2[0])))
                return (None if notconv(r)[0] else float(r.mol.Etot[0]) - Ea - Eb), r, order

            d1, rj, order = dE(case["R"])
        except Exception as e:
            return Outcome.fail(f"exception:{type(e).__name__}", f"{type(e).__name__}: {str(e)[:200]}", labels)
        if d1 is None:
            return Outcome.inconclusive("scf_not_converged", labels)
        R = case["R"]
        nontrivial = len(fa[0]) >= 3 and len(fb[0]) >= 3
        # envelope = a generous multiple of the leading multipole interaction of the two isolated fragments: dipole-dipole
        # 14.4 eV A * 2 mu_A mu_B / R^3 (mu in e A, from the isolated runs) plus allowances for dipole-quadrupole / induction
        # terms of weakly polar partners. (The first version used a fixed 0.05 eV at 8 A calibrated on the water dimer; two LiCl
        # molecules, 1.5 e A each, legitimately interact with 0.065 eV there.)
        A0_ = 0.529167
        mua = float(np.linalg.norm(tonp(ra.mol.dipole[0]))) * A0_
        mub = float(np.linalg.norm(tonp(rb.mol.dipole[0]))) * A0_
        # Calibrated on 491 generated clean cases: X = |dE| R^3 / (14.4 (1+mu_A)(1+mu_B)) has median 0.023, 99th percentile 0.61,
        # maximum 0.71 (two NON-polar SO3 at 52 A: the Klopman-Ohno damping leaves an R^-3 tail between neutral fragments with
        # large internal charge separation). Envelope constant 5 = 7x that maximum. (Two earlier envelopes built from the dipoles
        # alone were violated by legitimate dipole-quadrupole / damping tails.) Sharp at long range: at 200 A it is ~2e-5 eV,
        # while an unbalanced 1/R term with 0.1 e effective charge would be 7e-4 eV.
        env = 5.0 * 14.4 * (1.0 + mua) * (1.0 + mub) / R ** 3 + 5e-9
        if abs(d1) > env:
            return Outcome.fail("additivity_envelope", f"{case['a']} ... {case['b']} at R = {R} A ({method}): E(AB) - E(A) - E(B) = {d1:.3e} eV exceeds 0.05 (8/R)^3 = {env:.3e}", labels, nontrivial, dE=abs(d1))
        info = {"dE_over_envelope": abs(d1) / env}
        # fragment observables approach the isolated ones (same envelope scale, per atom)
        na = len(fa[0])
        inv = np.argsort(order)
        Fj = tonp(rj.mol.force[0])[inv]
        qj = tonp(rj.mol.q[0])[inv]
        dF = float(max(np.abs(Fj[:na] - tonp(ra.mol.force[0])).max(), np.abs(Fj[na:] - tonp(rb.mol.force[0])).max()))
        dq = float(max(np.abs(qj[:na] - tonp(ra.mol.q[0])).max(), np.abs(qj[na:] - tonp(rb.mol.q[0])).max()))
        if dF > 4 * env + 1e-8 or dq > 4 * env + 1e-9:
            return Outcome.fail("fragment_observables_do_not_approach_isolated", f"R = {R} A: forces differ from the isolated fragments by {dF:.3e}, charges by {dq:.3e} (scale {env:.1e})", labels, nontrivial)
        # continuity under the default cutoff: no jump at any radius, in particular across 40 bohr
        d1b, _, _ = dE(R * (1 + 1e-6))
        if d1b is not None and abs(d1b - d1) > 5e-9 + 1e-4 * abs(d1):      # smooth variation is ~3..6e-6 |dE| for a 1e-6 relative step
            return Outcome.fail("jump_under_default_cutoff", f"dE jumps by {abs(d1b - d1):.3e} eV when R goes from {R} to {R * (1 + 1e-6)} A", labels, nontrivial)
        for Rc in (21.167 * 0.999999, 21.167 * 1.000001) if 15 < R < 30 else ():
            pass
        if 15.0 < R < 30.0:
            dA, _, _ = dE(21.1669)
            dB, _, _ = dE(21.1672)
            if dA is not None and dB is not None and abs(dA - dB) > 5e-9 + 1e-4 * max(abs(dA), abs(dB)):   # SCF noise ~1e-9 at |E| ~ 1e3 eV
                return Outcome.fail("jump_at_overlap_cutoff", f"dE changes by {abs(dA - dB):.3e} eV across the 40 bohr overlap cutoff (21.167 A): {dA:.3e} -> {dB:.3e}", labels, nontrivial)
            labels.append("crossed_overlap_cutoff")
        # asymptotic decay
        # "falling off AT LEAST as fast as the leading multipole interaction": one-sided (R^-4, R^-6 tails of non-polar partners
        # are allowed -- the first version's two-sided band rejected them), and only where |dE| is well above the SCF noise floor
        # (energies of ~1e3 eV carry ~1e-9 eV of noise at eps = 1e-11)
        if R >= 64.0 and R <= 250.0 and abs(d1) > 1e-6:
            d2, _, _ = dE(2 * R)
            if d2 is not None:
                ratio = d2 / d1
                info["decay_ratio"] = ratio
                if not (-0.02 <= ratio <= 0.21):       # measured on the unchanged tree for 64 <= R < 250: 0.046 .. 0.166 (R^-3: 0.125, R^-2: 0.25, 1/R: 0.5)
                    return Outcome.fail("asymptotic_decay_not_R^-3", f"dE(2R)/dE(R) = {ratio:.4f} at R = {R} A (leading multipole interaction gives 1/8): dE(R) = {d1:.3e}, dE(2R) = {d2:.3e}", labels, nontrivial, ratio=ratio)
        return Outcome.ok(nontrivial, labels, **info)


class Cutoff(SubCheck):
    name = "cutoff"
    budget = {"quick": 240, "thorough": 6000}
    weight = 4.0

    def strategy(self, tier):
        return _frag_case(cutoff=True)

    def oracle(self, case):
        method = case["method"]
        labels = ["method:" + method, "cut:" + case["cut"]]
        fa, fb = _fragments(case)
        Z, X, order = _joint(fa, fb)
        D = np.linalg.norm(X[:, None, :] - X[None, :, :], axis=-1)
        na = len(fa[0])
        inv = np.argsort(order)
        frag = np.array([0] * na + [1] * len(fb[0]))[order]
        same = frag[:, None] == frag[None, :]
        intra_max = float(D[same].max())
        inter_min = float(D[~same].min())
        try:
            ra, rb = _sp(fa[0], fa[1], method), _sp(fb[0], fb[1], method)
            if notconv(ra)[0] or notconv(rb)[0]:
                return Outcome.inconclusive("scf_not_converged", labels)
            # every joint run starts from the fragment-product density (see Additivity: a cold start of e.g. MNDO LiH ... F2 at
            # 22.7 A ends, flagged converged, at +133 eV -- SCF multistability, not a cutoff defect)
            P0 = _product_density(ra, rb, order, len(fa[0]), len(fb[0]))
            base = _sp(Z, X, method, P0=P0.clone())
            if case["cut"] == "above_all":
                cut = float(D.max()) * 1.5 + 1.0
                r = _sp(Z, X, method, extra={"pair_outer_cutoff": cut}, P0=P0.clone())
                if notconv(r)[0] or notconv(base)[0]:
                    return Outcome.inconclusive("scf_not_converged", labels)
                dE = abs(float(r.mol.Etot[0]) - float(base.mol.Etot[0]))
                dF = float(np.abs(tonp(r.mol.force[0]) - tonp(base.mol.force[0])).max())
                if dE > 1e-11 or dF > 1e-10:
                    return Outcome.fail("cutoff_above_all_pairs_changes_result", f"pair_outer_cutoff = {cut:.1f} A (largest pair distance {D.max():.1f}) changes Etot by {dE:.3e}, forces by {dF:.3e}", labels, True)
                return Outcome.ok(True, labels, dE_above=dE)
            if inter_min <= intra_max * 1.05:
                return Outcome.inconclusive("fragments_overlap_in_distance", labels)
            cut = 0.5 * (intra_max + inter_min)
            r = _sp(Z, X, method, extra={"pair_outer_cutoff": cut}, P0=P0.clone())
            if notconv(r)[0]:
                return Outcome.inconclusive("scf_not_converged", labels)
        except Exception as e:
            return Outcome.fail(f"exception:{type(e).__name__}", f"{type(e).__name__}: {str(e)[:200]}", labels)
        dE = abs(float(r.mol.Etot[0]) - float(ra.mol.Etot[0]) - float(rb.mol.Etot[0]))
        Fj = tonp(r.mol.force[0])[inv]
        qj = tonp(r.mol.q[0])[inv]
        dF = float(max(np.abs(Fj[:na] - tonp(ra.mol.force[0])).max(), np.abs(Fj[na:] - tonp(rb.mol.force[0])).max()))
        dq = float(max(np.abs(qj[:na] - tonp(ra.mol.q[0])).max(), np.abs(qj[na:] - tonp(rb.mol.q[0])).max()))
        if dE > 1e-9 or dF > 1e-8 or dq > 1e-9:
            return Outcome.fail("finite_cutoff_does_not_drop_exactly_the_pairs_beyond_it", f"cutoff {cut:.2f} A between the largest intra-fragment ({intra_max:.2f}) and the smallest inter-fragment ({inter_min:.2f}) distance: "
                                f"E - E(A) - E(B) = {dE:.3e} eV, forces differ by {dF:.3e}, charges by {dq:.3e}", labels, True, dE=dE)
        return Outcome.ok(True, labels, dE_between=dE, dF_between=dF)


SUBCHECKS = [Additivity(), Cutoff()]
