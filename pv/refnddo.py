"""INDEPENDENT NumPy/SciPy reference of the published NDDO model (DESIGN 1.5); promoted from design_probes/refnddo.py."""
"""Prototype of an INDEPENDENT NumPy evaluation of the published NDDO model (MNDO / AM1 / PM3)
on the parameter tables shipped with PYSEQM.  Shares no code with seqm.
Units: eV, Angstrom outside; bohr inside the integral routines (a0, ev as used by MOPAC/seqm tables)."""
import csv, itertools, math
import numpy as np
from numpy.polynomial.legendre import leggauss
from numpy.polynomial.laguerre import laggauss
from scipy.optimize import brentq

EV = 27.21
A0 = 0.529167
KCAL = 23.061
from . import REPO as _REPO
PARAM_DIR = _REPO + "/seqm/params/"  # the tables shipped with the tree under test are the reference data of C06/C14
QN = {1: 1, 3: 2, 4: 2, 5: 2, 6: 2, 7: 2, 8: 2, 9: 2, 11: 3, 12: 3, 13: 3, 14: 3, 15: 3, 16: 3, 17: 3}
# valence configuration (ns, np) and core charge
CONF = {1: (1, 0), 3: (1, 0), 4: (2, 0), 5: (2, 1), 6: (2, 2), 7: (2, 3), 8: (2, 4), 9: (2, 5),
        11: (1, 0), 12: (2, 0), 13: (2, 1), 14: (2, 2), 15: (2, 3), 16: (2, 4), 17: (2, 5)}
EHEAT = {1: 52.102, 3: 38.410, 4: 76.960, 5: 135.700, 6: 170.890, 7: 113.000, 8: 59.559, 9: 18.890,
         11: 25.850, 12: 35.000, 13: 79.490, 14: 108.390, 15: 75.570, 16: 66.400, 17: 28.990}


def core_charge(Z):
    return sum(CONF[Z])


def load_table(method):
    rows = list(csv.reader(open(f"{PARAM_DIR}parameters_{method}_MOPAC.csv")))
    hdr = [h.strip() for h in rows[0]]
    tab = {}
    for r in rows[1:]:
        if not r or not r[0].strip():
            continue
        try:
            Z = int(r[0])
        except ValueError:
            continue
        d = {}
        for h, v in zip(hdr[2:], r[2:]):
            try:
                d[h] = float(v)
            except ValueError:
                d[h] = float(v.split()[0]) if v.split() else 0.0
        tab[Z] = d
    return tab


# ----------------------------------------------------------------------------- overlaps
_QUAD = {}


def _quad(n):
    if n not in _QUAD:
        _QUAD[n] = (laggauss(n), leggauss(n))
    return _QUAD[n]


def _sto_norm(n, z):
    return (2 * z) ** (n + 0.5) / math.sqrt(math.factorial(2 * n))


def overlap_local(nA, zA, lA, mA, nB, zB, lB, mB, R, nq=90):
    """<chi_A|chi_B>; A at origin, B at +R on the local z axis; real STOs; l=0 s, (1,0) p_sigma, (1,1) p_pi"""
    (x, wx), (e, we) = _quad(nq)
    a = R * (zA + zB) / 2.0
    XI = 1 + x[:, None] / a
    ETA = e[None, :]
    rA = R * (XI + ETA) / 2
    rB = R * (XI - ETA) / 2
    zAc = R * (1 + XI * ETA) / 2
    zBc = zAc - R
    rho2 = np.maximum((R / 2) ** 2 * (XI**2 - 1) * (1 - ETA**2), 0.0)

    def ang(l, m, r, z):
        if l == 0:
            return np.full_like(r, 1 / math.sqrt(4 * math.pi))
        if m == 0:
            return math.sqrt(3 / (4 * math.pi)) * z / r
        return math.sqrt(3 / (4 * math.pi)) * np.sqrt(rho2) / r

    fA = _sto_norm(nA, zA) * rA ** (nA - 1) * np.exp(-zA * rA) * ang(lA, mA, rA, zAc)
    fB = _sto_norm(nB, zB) * rB ** (nB - 1) * np.exp(-zB * rB) * ang(lB, mB, rB, zBc)
    phi = 2 * math.pi if (mA == 0 and mB == 0) else (math.pi if (mA == 1 and mB == 1) else 0.0)
    integrand = fA * fB * (R / 2) ** 3 * (XI**2 - ETA**2) * phi
    return float(np.sum(wx[:, None] * np.exp(x)[:, None] * we[None, :] * integrand) / a)


def frame(u):
    """rows: orthonormal local axes (e0 along u) expressed in molecular coordinates"""
    u = u / np.linalg.norm(u)
    k = int(np.argmin(np.abs(u)))
    t = np.eye(3)[k]
    v = t - (t @ u) * u
    v /= np.linalg.norm(v)
    w = np.cross(u, v)
    return np.stack([u, v, w])


def overlap_block(ZA, ZB, pA, pB, rA, rB):
    """4x4 overlap block <mu_A|lambda_B> in the molecular frame (order s,px,py,pz)"""
    d = (rB - rA) / A0
    R = float(np.linalg.norm(d))
    Tm = frame(d)  # local axis 0 = bond direction A->B
    nA, nB = QN[ZA], QN[ZB]
    S = np.zeros((4, 4))  # local: index 0 s, 1 sigma, 2,3 pi
    S[0, 0] = overlap_local(nA, pA["zeta_s"], 0, 0, nB, pB["zeta_s"], 0, 0, R)
    if ZA > 1:
        S[1, 0] = overlap_local(nA, pA["zeta_p"], 1, 0, nB, pB["zeta_s"], 0, 0, R)
    if ZB > 1:
        S[0, 1] = overlap_local(nA, pA["zeta_s"], 0, 0, nB, pB["zeta_p"], 1, 0, R)
    if ZA > 1 and ZB > 1:
        S[1, 1] = overlap_local(nA, pA["zeta_p"], 1, 0, nB, pB["zeta_p"], 1, 0, R)
        S[2, 2] = S[3, 3] = overlap_local(nA, pA["zeta_p"], 1, 1, nB, pB["zeta_p"], 1, 1, R)
    C = np.eye(4)
    C[1:, 1:] = Tm.T  # AO_mol(a) = sum_i Tm[i,a] AO_loc(i)  ->  C[mol, loc]
    return C @ S @ C.T


# ----------------------------------------------------------------------------- multipoles / ERIs
def multipole_params(p, Z):
    if Z == 1:
        return dict(D1=0.0, D2=0.0, rho0=0.5 * EV / p["g_ss"], rho1=0.0, rho2=0.0)
    n = QN[Z]
    zs, zp = p["zeta_s"], p["zeta_p"]
    D1 = (2 * n + 1) * (4 * zs * zp) ** (n + 0.5) / (zs + zp) ** (2 * n + 2) / math.sqrt(3.0)
    D2 = math.sqrt((4 * n * n + 6 * n + 2) / 20.0) / zp
    rho0 = 0.5 * EV / p["g_ss"]
    hsp = p["h_sp"] / EV
    hpp = max(0.5 * (p["g_pp"] - p["g_p2"]), 0.1) / EV  # MOPAC: hpp is not allowed below 0.1 eV
    f1 = lambda r: 0.25 * (1 / r - 1 / math.sqrt(D1 * D1 + r * r)) - hsp
    f2 = lambda r: 0.125 * (1 / r - 2 / math.sqrt(D2 * D2 + r * r) + 1 / math.sqrt(2 * D2 * D2 + r * r)) - hpp
    rho1 = brentq(f1, 1e-6, 1e3, xtol=1e-15) if hsp > 0 else float("nan")
    rho2 = brentq(f2, 1e-6, 1e3, xtol=1e-15)
    return dict(D1=D1, D2=D2, rho0=rho0, rho1=rho1, rho2=rho2)


def _dist(mu, nu, mp):
    D1, D2 = mp["D1"], mp["D2"]
    e = np.eye(3)
    if mu > nu:
        mu, nu = nu, mu
    if (mu, nu) == (0, 0):
        return [("m", [(1.0, np.zeros(3))])]
    if mu == 0:
        a = e[nu - 1]
        return [("d", [(0.5, D1 * a), (-0.5, -D1 * a)])]
    if mu == nu:
        a = e[mu - 1]
        return [("m", [(1.0, np.zeros(3))]), ("q", [(0.25, 2 * D2 * a), (0.25, -2 * D2 * a), (-0.5, np.zeros(3))])]
    a, b = e[mu - 1], e[nu - 1]
    return [("q", [(0.25, D2 * (a + b)), (0.25, -D2 * (a + b)), (-0.25, D2 * (a - b)), (-0.25, -D2 * (a - b))])]


def eri_local(mpA, mpB, R, nA=4, nB=4):
    key = {"m": "rho0", "d": "rho1", "q": "rho2"}
    W = np.zeros((4, 4, 4, 4))
    Rv = np.array([R, 0, 0.0])
    for mu, nu, la, si in itertools.product(range(nA), range(nA), range(nB), range(nB)):
        if mu > nu or la > si:
            continue
        v = 0.0
        for kA, cA in _dist(mu, nu, mpA):
            for kB, cB in _dist(la, si, mpB):
                add = (mpA[key[kA]] + mpB[key[kB]]) ** 2
                for qa, ra in cA:
                    for qb, rb in cB:
                        d = Rv + rb - ra
                        v += qa * qb / math.sqrt(d @ d + add)
        for (a, b) in {(mu, nu), (nu, mu)}:
            for (c, d_) in {(la, si), (si, la)}:
                W[a, b, c, d_] = v * EV
    # published relation that makes the pi-pi' integral invariant to rotation about the bond
    if nA == 4 and nB == 4:
        val = 0.5 * (W[2, 2, 2, 2] - W[2, 2, 3, 3])
        for (a, b) in ((2, 3), (3, 2)):
            for (c, d_) in ((2, 3), (3, 2)):
                W[a, b, c, d_] = val
    return W


def eri_block(ZA, ZB, mpA, mpB, rA, rB):
    d = (rB - rA) / A0
    R = float(np.linalg.norm(d))
    T3 = frame(d)
    C = np.eye(4)
    C[1:, 1:] = T3.T
    Wl = eri_local(mpA, mpB, R, 1 if ZA == 1 else 4, 1 if ZB == 1 else 4)
    return np.einsum("am,bn,cl,ds,mnls->abcd", C, C, C, C, Wl, optimize=True)


# ----------------------------------------------------------------------------- model
class Model:
    def __init__(self, method, Z, X):
        self.method = method
        self.Z = list(Z)
        self.X = np.asarray(X, float)
        self.tab = load_table(method)
        self.nat = len(Z)
        self.offs = []
        o = 0
        for z in Z:
            self.offs.append(o)
            o += 1 if z == 1 else 4
        self.nao = o
        self.par = [self.tab[z] for z in Z]
        self.mp = [multipole_params(p, z) for p, z in zip(self.par, Z)]
        self._build()

    def nb(self, a):
        return 1 if self.Z[a] == 1 else 4

    def _build(self):
        n = self.nao
        H = np.zeros((n, n))
        G = np.zeros((n, n, n, n))
        self.pairW = {}
        for a, (z, p) in enumerate(zip(self.Z, self.par)):
            o = self.offs[a]
            H[o, o] = p["U_ss"]
            gss = p["g_ss"]
            G[o, o, o, o] = gss
            if z > 1:
                gsp, gpp, gp2, hsp = p["g_sp"], p["g_pp"], p["g_p2"], p["h_sp"]
                for i in range(1, 4):
                    H[o + i, o + i] = p["U_pp"]
                    G[o, o, o + i, o + i] = G[o + i, o + i, o, o] = gsp
                    for (x, y, u, v) in [(o, o + i, o, o + i), (o, o + i, o + i, o), (o + i, o, o, o + i), (o + i, o, o + i, o)]:
                        G[x, y, u, v] = hsp
                    G[o + i, o + i, o + i, o + i] = gpp
                    for j in range(1, 4):
                        if i != j:
                            G[o + i, o + i, o + j, o + j] = gp2
                            G[o + i, o + j, o + i, o + j] = G[o + i, o + j, o + j, o + i] = 0.5 * (gpp - gp2)
        for a in range(self.nat):
            for b in range(a + 1, self.nat):
                W = eri_block(self.Z[a], self.Z[b], self.mp[a], self.mp[b], self.X[a], self.X[b])
                self.pairW[(a, b)] = W
                oa, ob, na, nb_ = self.offs[a], self.offs[b], self.nb(a), self.nb(b)
                Wab = W[:na, :na, :nb_, :nb_]
                G[oa:oa + na, oa:oa + na, ob:ob + nb_, ob:ob + nb_] = Wab
                G[ob:ob + nb_, ob:ob + nb_, oa:oa + na, oa:oa + na] = Wab.transpose(2, 3, 0, 1)
                # core-electron attraction
                H[oa:oa + na, oa:oa + na] -= core_charge(self.Z[b]) * W[:na, :na, 0, 0]
                H[ob:ob + nb_, ob:ob + nb_] -= core_charge(self.Z[a]) * W[0, 0, :nb_, :nb_]
                # resonance integrals
                S = overlap_block(self.Z[a], self.Z[b], self.par[a], self.par[b], self.X[a], self.X[b])[:na, :nb_]
                ba = np.array([self.par[a]["beta_s"]] + [self.par[a]["beta_p"]] * 3)[:na]
                bb = np.array([self.par[b]["beta_s"]] + [self.par[b]["beta_p"]] * 3)[:nb_]
                Hab = 0.5 * (ba[:, None] + bb[None, :]) * S
                H[oa:oa + na, ob:ob + nb_] = Hab
                H[ob:ob + nb_, oa:oa + na] = Hab.T
        self.H, self.G = H, G

    # ------------------------------------------------------------------ energies
    def enuc(self):
        E = 0.0
        for (a, b), W in self.pairW.items():
            za, zb = self.Z[a], self.Z[b]
            pa, pb = self.par[a], self.par[b]
            R = float(np.linalg.norm(self.X[a] - self.X[b]))
            gam = W[0, 0, 0, 0]
            ZZ = core_charge(za) * core_charge(zb)

            def fterm(zx, px, zy):
                # N-H and O-H: the heavy atom's exponential carries a factor R (Dewar & Thiel 1977)
                if zx in (7, 8) and zy == 1:
                    return R * math.exp(-px["alpha"] * R)
                return math.exp(-px["alpha"] * R)

            e = ZZ * gam * (1 + fterm(za, pa, zb) + fterm(zb, pb, za))
            if self.method in ("AM1", "PM3"):
                ng = 4 if self.method == "AM1" else 2
                g = 0.0
                for p in (pa, pb):
                    for k in range(1, ng + 1):
                        K, L, M = p[f"Gaussian{k}_K"], p[f"Gaussian{k}_L"], p[f"Gaussian{k}_M"]
                        g += K * math.exp(-L * (R - M) ** 2)
                e += ZZ / R * g
            E += e
        return E

    def fock(self, P):
        J = np.einsum("mnls,ls->mn", self.G, P)
        K = np.einsum("mlns,ls->mn", self.G, P)
        return self.H + J - 0.5 * K

    def fock_u(self, Pa, Pb):
        J = np.einsum("mnls,ls->mn", self.G, Pa + Pb)
        return self.H + J - np.einsum("mlns,ls->mn", self.G, Pa), self.H + J - np.einsum("mlns,ls->mn", self.G, Pb)

    def eelec(self, P):
        return 0.5 * np.sum(P * (self.H + self.fock(P)))

    def eelec_u(self, Pa, Pb):
        Fa, Fb = self.fock_u(Pa, Pb)
        return 0.5 * np.sum((Pa + Pb) * self.H + Pa * Fa + Pb * Fb)

    def nelec(self, charge=0):
        return sum(core_charge(z) for z in self.Z) - charge

    def scf(self, charge=0, tol=1e-11, maxit=500):
        nocc = self.nelec(charge) // 2
        P = np.zeros((self.nao, self.nao))
        for a, z in enumerate(self.Z):
            o = self.offs[a]
            if z == 1:
                P[o, o] = 1.0
            else:
                for i in range(4):
                    P[o + i, o + i] = core_charge(z) / 4.0
        Fs, Es = [], []
        Eold = 0.0
        for it in range(maxit):
            F = self.fock(P)
            err = F @ P - P @ F
            Fs.append(F); Es.append(err)
            Fs, Es = Fs[-8:], Es[-8:]
            if len(Fs) >= 2 and it > 2:
                n = len(Fs)
                B = -np.ones((n + 1, n + 1)); B[n, n] = 0
                for i in range(n):
                    for j in range(n):
                        B[i, j] = np.sum(Es[i] * Es[j])
                rhs = np.zeros(n + 1); rhs[n] = -1
                try:
                    c = np.linalg.solve(B, rhs)[:n]
                    F = sum(ci * Fi for ci, Fi in zip(c, Fs))
                except np.linalg.LinAlgError:
                    pass
            e, v = np.linalg.eigh(F)
            Pn = 2 * v[:, :nocc] @ v[:, :nocc].T
            if it < 3:
                Pn = 0.5 * P + 0.5 * Pn
            E = self.eelec(Pn)
            dP = np.abs(Pn - P).max()
            P = Pn
            if dP < tol and abs(E - Eold) < tol:
                return E, P, e, True
            Eold = E
        return E, P, e, False

    def eiso(self):
        tot = 0.0
        for z, p in zip(self.Z, self.par):
            ns, npp = CONF[z]
            L = min(npp, 6 - npp)
            gssc = max(ns - 1, 0)
            gspc = ns * npp
            gp2c = npp * (npp - 1) / 2 + 0.5 * (L * (L - 1)) / 2
            gppc = -0.5 * (L * (L - 1)) / 2
            hspc = -npp if ns == 2 else (0 if npp == 0 else -npp)
            tot += ns * p["U_ss"] + npp * p.get("U_pp", 0.0) + gssc * p["g_ss"] + gspc * p.get("g_sp", 0) + gp2c * p.get("g_p2", 0) + gppc * p.get("g_pp", 0) + hspc * p.get("h_sp", 0)
        return tot

    def eheat(self):
        return sum(EHEAT[z] for z in self.Z) / KCAL

    # seqm's padded AO ordering (4 per atom incl. H) -> packed ordering used here
    def from_seqm_P(self, Pfull):
        keep = []
        for a, z in enumerate(self.Z):
            keep += [4 * a + i for i in range(1 if z == 1 else 4)]
        return Pfull[np.ix_(keep, keep)]
