"""Worker process: executes one task (sub-check shard) and writes a JSON result file.

usage: python -m pv.worker <task.json> <result.json>
"""
import importlib
import json
import os
import sys
import time
import traceback

from . import core


class _CheckFailure(Exception):
    pass


def load_property(pid):
    mod = importlib.import_module(f"pv.props.{pid.lower()}")
    return mod


def get_sub(mod, name):
    for s in mod.SUBCHECKS:
        if s.name == name:
            return s
    raise KeyError(name)


def call_oracle(sub, case):
    """oracle call with the non-termination guard: a monitored loop that exceeds its bound is C03's subject; every
    other property counts the case as inconclusive (and shows the count in its evidence)"""
    from .core import Outcome
    from .monitors import NonTermination

    try:
        return sub.oracle(case)
    except NonTermination as e:
        if getattr(sub, "nontermination_outcome", None):
            return sub.nontermination_outcome(case, e)
        return Outcome.inconclusive(f"nontermination:{e.loop}")
    except (MemoryError, OSError) as e:
        # resource exhaustion on a loaded machine is not a verdict about the property: counted, shown in the evidence, and turned
        # into a harness error by the runner only if it is frequent (a background sweep once lost a task to such an exception)
        return Outcome.inconclusive(f"resource_error:{type(e).__name__}")


class Recorder:
    def __init__(self, exclusion):
        self.exclusion = set(exclusion)
        self.evaluations = 0
        self.nontrivial = set()
        self.labels = {}
        self.inconclusive = {}
        self.excluded_hits = {}
        self.failures = []  # list of dict(case, outcome)
        self.samples = []
        self.sample_slots = 0
        self.last_failure = None
        self.max_info = {}
        self.max_case = {}

    def record(self, case, out, phase="generate"):
        self.evaluations += 1
        st = out.get("status")
        for lb in out.get("labels", ()):  # distribution of the generator
            self.labels[lb] = self.labels.get(lb, 0) + 1
        for k, v in (out.get("info") or {}).items():
            if isinstance(v, (int, float)) and not isinstance(v, bool):
                if k not in self.max_info or abs(v) > abs(self.max_info[k]):
                    self.max_info[k] = v
                    self.max_case[k] = case
        if st == "inconclusive":
            r = out.get("reason", "?")
            self.inconclusive[r] = self.inconclusive.get(r, 0) + 1
        if out.get("nontrivial") and st in ("ok", "fail"):
            h = core.case_hash(case)
            if h not in self.nontrivial:
                self.nontrivial.add(h)
                n = len(self.nontrivial)
                # keep first, and a thinning reservoir of later ones
                if n <= 2 or (n & (n - 1)) == 0:
                    self.samples.append({"case": case, "status": st, "info": out.get("info", {})})
        if st == "fail":
            b = out.get("bucket", "?")
            if b in self.exclusion:
                self.excluded_hits[b] = self.excluded_hits.get(b, 0) + 1
                return False
            self.last_failure = {"case": case, "outcome": dict(out)}
            return True
        return False


def run_hypothesis(sub, tier, n, seed, rec, shrink):
    import hypothesis
    from hypothesis import HealthCheck, Phase, given, settings

    strat = sub.strategy(tier)
    remaining = n
    rnd = 0
    while remaining > 0 and rnd < 8:
        phases = [Phase.generate] + ([Phase.shrink] if shrink else [])
        before = rec.evaluations
        rec.last_failure = None

        @hypothesis.seed(core.mix_seed(seed, rnd))
        @settings(max_examples=remaining, database=None, deadline=None, derandomize=False,
                  report_multiple_bugs=False, suppress_health_check=list(HealthCheck), phases=phases,
                  print_blob=False, verbosity=hypothesis.Verbosity.quiet)
        @given(strat)
        def test(case):
            out = call_oracle(sub, case)
            if rec.record(case, out):
                raise _CheckFailure(out.get("bucket"))

        try:
            test()
            break
        except _CheckFailure:
            f = rec.last_failure
            f = minimise(sub, f, rec, budget=25)
            rec.failures.append(f)
            rec.exclusion.add(f["outcome"].get("bucket", "?"))
        except hypothesis.errors.Unsatisfiable:
            break
        except hypothesis.errors.Flaky:
            # Hypothesis re-executes a failing example before reporting it and found a different outcome. A violation must be
            # replayable, so the case is re-evaluated directly: it counts only if it fails again in the same bucket.
            f = rec.last_failure
            again = [call_oracle(sub, f["case"]) for _ in range(2)] if f else []
            if f and all(o.get("status") == "fail" and o.get("bucket") == f["outcome"].get("bucket") for o in again):
                rec.failures.append(f)
                rec.exclusion.add(f["outcome"].get("bucket", "?"))
            else:
                rec.inconclusive["nonreproducible_outcome"] = rec.inconclusive.get("nonreproducible_outcome", 0) + 1
                if f:
                    rec.samples.append({"case": f["case"], "status": "nonreproducible", "info": {"first_outcome": f["outcome"].get("msg")}})
        used = rec.evaluations - before
        remaining -= max(used, 1)
        rnd += 1


def run_stateful(sub, tier, n, seed, rec, shrink):
    """sub.machine(rec) returns a RuleBasedStateMachine class whose rules call rec.record themselves via
    sub.check_step; failures raise _CheckFailure."""
    import hypothesis
    from hypothesis import HealthCheck, Phase, settings
    from hypothesis.stateful import run_state_machine_as_test

    remaining = n
    rnd = 0
    while remaining > 0 and rnd < 6:
        rec.last_failure = None
        phases = [Phase.generate] + ([Phase.shrink] if shrink else [])
        before = rec.evaluations
        Machine = sub.machine(rec, _CheckFailure, tier)
        st = settings(max_examples=remaining, stateful_step_count=sub.step_count[tier], database=None, deadline=None,
                      derandomize=False, report_multiple_bugs=False, suppress_health_check=list(HealthCheck),
                      phases=phases, print_blob=False, verbosity=hypothesis.Verbosity.quiet)
        try:
            run_state_machine_as_test(hypothesis.seed(core.mix_seed(seed, rnd))(Machine), settings=st)
            break
        except _CheckFailure:
            f = rec.last_failure
            if getattr(sub, "oracle", None) is not None and type(sub).simplify is not core.SubCheck.simplify:
                f = minimise(sub, f, rec, budget=20)
            rec.failures.append(f)
            rec.exclusion.add(f["outcome"].get("bucket", "?"))
        used = max(1, getattr(sub, "histories_run", lambda: rec.evaluations - before)())
        remaining -= used
        rnd += 1


def minimise(sub, failure, rec, budget=25):
    """structured minimiser: greedily accept simpler candidates that fail in the same bucket"""
    bucket = failure["outcome"].get("bucket")
    cur = failure
    tried = 0
    progress = True
    while progress and tried < budget:
        progress = False
        for cand in sub.simplify(cur["case"]):
            if tried >= budget:
                break
            tried += 1
            try:
                out = call_oracle(sub, cand)
            except Exception:
                continue
            if out.get("status") == "fail" and out.get("bucket") == bucket:
                cur = {"case": cand, "outcome": dict(out)}
                progress = True
                break
    cur["minimiser_evaluations"] = tried
    return cur


def run_enumerate(sub, tier, shard, nshards, rec):
    for i, case in enumerate(sub.enumerate(tier)):
        if i % nshards != shard:
            continue
        out = call_oracle(sub, case)
        if rec.record(case, out):
            f = rec.last_failure
            rec.failures.append(f)
            rec.exclusion.add(f["outcome"].get("bucket", "?"))


def main(argv):
    task = json.load(open(argv[1]))
    t0 = time.time()
    res = {"task": task, "ok": False}
    try:
        from . import init_torch

        init_torch(1)
        mod = load_property(task["property"])
        sub = get_sub(mod, task["sub"])
        rec = Recorder(task.get("exclusion", []))
        mode = task["mode"]
        if mode == "hypothesis":
            if getattr(sub, "stateful", False):
                run_stateful(sub, task["tier"], task["n"], task["seed"], rec, task.get("shrink", False))
            else:
                run_hypothesis(sub, task["tier"], task["n"], task["seed"], rec, task.get("shrink", False))
        elif mode == "enumerate":
            run_enumerate(sub, task["tier"], task["shard"], task["nshards"], rec)
        elif mode == "replay":
            for case in task["cases"]:
                out = call_oracle(sub, case["case"])
                out["replay_of"] = case.get("path")
                hit = rec.record(case["case"], out)
                rec.samples.append({"replay": case.get("path"), "status": out.get("status"),
                                    "bucket": out.get("bucket")})
                if hit or (out.get("status") == "fail"):
                    rec.failures.append({"case": case["case"], "outcome": dict(out), "replay_of": case.get("path")})
        else:
            raise ValueError(mode)
        res.update(ok=True, evaluations=rec.evaluations, nontrivial=sorted(rec.nontrivial), labels=rec.labels,
                   inconclusive=rec.inconclusive, excluded_hits=rec.excluded_hits, failures=rec.failures,
                   samples=rec.samples[:6], max_info=rec.max_info, max_case=rec.max_case)
    except BaseException as e:  # harness error -> exit 2 in the parent
        res["error"] = "".join(traceback.format_exception(type(e), e, e.__traceback__))[-6000:]
    res["wall_s"] = time.time() - t0
    tmp = argv[2] + ".tmp"
    with open(tmp, "w") as f:
        json.dump(core.jsonable(res), f)
    os.replace(tmp, argv[2])
    sys.stdout.flush()
    os._exit(0)


if __name__ == "__main__":
    main(sys.argv)
