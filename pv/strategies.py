"""Hypothesis strategies shared by the property modules. Every drawn case is a JSON-able dict."""
import math

import numpy as np
from hypothesis import strategies as st

from . import molecules as M

unit = st.floats(-1.0, 1.0, allow_nan=False, allow_infinity=False, width=64)
# quantised floats shrink well and keep replay files short
q3 = st.integers(-1000, 1000).map(lambda i: i / 1000.0)


@st.composite
def molecule_case(draw, method=None, kinds=("neutral",), max_atoms=8, min_atoms=1, amp_max=0.15, stretch=True,
                  methods=None):
    if method is None:
        method = draw(st.sampled_from(methods or M.METHODS_SP))
    pool = M.names(method, kinds, max_atoms, min_atoms)
    tpl = draw(st.sampled_from(pool))
    n = len(M.ALL[tpl]["Z"])
    amp = draw(st.sampled_from([0.0, 0.02, 0.05, 0.1, 0.15])) if amp_max >= 0.15 else draw(
        st.sampled_from([a for a in [0.0, 0.01, 0.02, 0.05, 0.1] if a <= amp_max]))
    disp = draw(st.lists(q3, min_size=3 * n, max_size=3 * n)) if amp > 0 else None
    case = {"method": method, "tpl": tpl, "amp": amp}
    if disp is not None:
        case["disp"] = disp
    if stretch and n >= 2 and draw(st.integers(0, 3)) == 0:
        i = draw(st.integers(0, n - 1))
        j = draw(st.integers(0, n - 2))
        j = j if j < i else j + 1
        case["stretch"] = [i, j, draw(st.sampled_from([0.85, 0.92, 1.1, 1.25, 1.4]))]
    return case


def mol_labels(case, Z=None):
    Z = Z or M.ALL[case["tpl"]]["Z"]
    m = M.ALL[case["tpl"]]
    lab = ["method:" + case.get("method", "?")]
    lab += ["pair:" + p for p in M.pair_classes(Z)]
    lab.append("charge:%d" % m["charge"])
    lab.append("mult:%d" % m["mult"])
    lab.append("natoms:%d" % len(Z))
    return lab


# ---------------------------------------------------------------- rigid motions
AXES = {"+x": (1, 0, 0), "-x": (-1, 0, 0), "+y": (0, 1, 0), "-y": (0, -1, 0), "+z": (0, 0, 1), "-z": (0, 0, -1)}


def _cube_rotations():
    import itertools

    out = []
    for perm in itertools.permutations(range(3)):
        for signs in itertools.product((1, -1), repeat=3):
            R = np.zeros((3, 3))
            for i, p in enumerate(perm):
                R[i, p] = signs[i]
            if abs(np.linalg.det(R) - 1) < 1e-9:
                out.append(R)
    return out


CUBE = _cube_rotations()


@st.composite
def rigid_motion(draw, natoms, allow_identity=True, translate=True):
    kind = draw(st.sampled_from(["haar", "haar", "align", "align", "near", "near", "cube"] + (["identity"] if allow_identity else [])))
    mo = {"kind": kind}
    if kind == "haar":
        mo["q"] = draw(st.lists(q3, min_size=4, max_size=4))
    elif kind in ("align", "near"):
        if natoms < 2:
            mo = {"kind": "haar", "q": draw(st.lists(q3, min_size=4, max_size=4))}
        else:
            i = draw(st.integers(0, natoms - 1))
            j = draw(st.integers(0, natoms - 2))
            mo["pair"] = [i, j if j < i else j + 1]
            mo["axis"] = draw(st.sampled_from(sorted(AXES)))
            mo["spin"] = draw(st.integers(0, 359))
            if kind == "near":
                mo["tilt_exp"] = draw(st.integers(1, 12))
                mo["tilt_dir"] = draw(st.integers(0, 359))
    elif kind == "cube":
        mo["idx"] = draw(st.integers(0, 23))
    if translate:
        tk = draw(st.sampled_from(["0", "small", "small", "big"]))
        if tk == "small":
            mo["t"] = [20.0 * v for v in draw(st.lists(q3, min_size=3, max_size=3))]
        elif tk == "big":
            mo["t"] = [1000.0 * v for v in draw(st.lists(q3, min_size=3, max_size=3))]
    return mo


def _quat_to_R(q):
    q = np.asarray(q, dtype=float)
    nq = np.linalg.norm(q)
    if nq < 1e-9:
        return np.eye(3)
    w, x, y, z = q / nq
    return np.array([[1 - 2 * (y * y + z * z), 2 * (x * y - z * w), 2 * (x * z + y * w)],
                     [2 * (x * y + z * w), 1 - 2 * (x * x + z * z), 2 * (y * z - x * w)],
                     [2 * (x * z - y * w), 2 * (y * z + x * w), 1 - 2 * (x * x + y * y)]])


def _axis_angle(axis, ang):
    a = np.asarray(axis, dtype=float)
    a = a / np.linalg.norm(a)
    K = np.array([[0, -a[2], a[1]], [a[2], 0, -a[0]], [-a[1], a[0], 0]])
    return np.eye(3) + math.sin(ang) * K + (1 - math.cos(ang)) * K @ K


def _map_to(u, target):
    """proper rotation with R u = target (unit vectors), numerically exact via two Householder reflections"""
    u = np.asarray(u, dtype=float) / np.linalg.norm(u)
    t = np.asarray(target, dtype=float)
    # reflection swapping u and t, followed by a reflection fixing t
    def refl(a):
        n = np.linalg.norm(a)
        if n < 1e-14:
            return None
        a = a / n
        return np.eye(3) - 2 * np.outer(a, a)
    H1 = refl(u - t)
    if H1 is None:
        return np.eye(3)
    # any vector orthogonal to t
    o = np.cross(t, [1.0, 0, 0]) if abs(t[0]) < 0.9 else np.cross(t, [0, 1.0, 0])
    H2 = refl(o)
    return H2 @ H1


def rotation_matrix(mo, xyz):
    """3x3 proper rotation described by motion dict `mo` for geometry xyz (n x 3). rows transform as x' = x R^T"""
    k = mo.get("kind", "identity")
    if k == "identity":
        return np.eye(3)
    if k == "haar":
        return _quat_to_R(mo["q"])
    if k == "cube":
        return CUBE[mo["idx"] % 24]
    i, j = mo["pair"]
    n = len(xyz)
    i, j = i % n, j % n
    if i == j:
        j = (i + 1) % n
    u = xyz[j] - xyz[i]
    t = np.array(AXES[mo["axis"]], dtype=float)
    R = _map_to(u, t)
    R = _axis_angle(t, math.radians(mo.get("spin", 0))) @ R
    if k == "near":
        ang = 10.0 ** (-mo["tilt_exp"])
        o = np.cross(t, [1.0, 0, 0]) if abs(t[0]) < 0.9 else np.cross(t, [0, 1.0, 0])
        o = _axis_angle(t, math.radians(mo.get("tilt_dir", 0))) @ (o / np.linalg.norm(o))
        R = _axis_angle(o, ang) @ R
    return R


def apply_motion(mo, xyz):
    R = rotation_matrix(mo, xyz)
    t = np.asarray(mo.get("t", [0.0, 0.0, 0.0]), dtype=float)
    c = xyz.mean(axis=0)
    # rotate about the centroid (keeps numbers small), then translate
    return (xyz - c) @ R.T + c + t, R, t


def orientation_class(Z, xyz, tol=1e-6):
    """labels describing whether some real pair is (nearly) aligned with a Cartesian axis"""
    labs = set()
    n = len(Z)
    for i in range(n):
        for j in range(n):
            if i == j:
                continue
            u = xyz[j] - xyz[i]
            u = u / np.linalg.norm(u)
            for name, a in AXES.items():
                c = float(np.dot(u, a))
                if c > 1 - 1e-14:
                    labs.add("aligned:" + name)
                elif c > 1 - tol:
                    labs.add("near:" + name)
    return sorted(labs) or ["generic"]


# ---------------------------------------------------------------- solver configurations
@st.composite
def solver(draw, allow_sp2=True, allow_pulay=True, eps_exp=(6, 10), fixed=True):
    kinds = ["adaptive"] + (["fixed"] if fixed else []) + (["pulay"] if allow_pulay else [])
    k = draw(st.sampled_from(kinds))
    if k == "fixed":
        conv = [0, draw(st.sampled_from([0.0, 0.1, 0.3, 0.5]))]
    elif k == "adaptive":
        conv = [1]
    else:
        conv = [2]
    sp2 = [False]
    if allow_sp2 and draw(st.integers(0, 3)) == 0:
        sp2 = [True, 10.0 ** (-draw(st.integers(5, 7)))]
    eps = 10.0 ** (-draw(st.integers(eps_exp[0], eps_exp[1])))
    return {"conv": conv, "sp2": sp2, "eps": eps}


def solver_labels(s):
    return ["conv:%s" % s["conv"][0], "sp2:%s" % bool(s["sp2"][0])]   # conv[0] stays the solver kind also for [k, a, "T_el", T]
