"""Shared data model: cases are plain JSON-able dicts, oracles return Outcome objects."""
import hashlib
import json
import math


class Outcome(dict):
    """status: ok | fail | inconclusive | rejected
    nontrivial: bool  (meets the property's stated non-trivial rule)
    bucket: root-cause signature for failures (string)
    msg: human readable
    labels: list of classification labels (generator distribution)
    info: small dict with measured numbers
    """

    @staticmethod
    def ok(nontrivial=True, labels=(), **info):
        return Outcome(status="ok", nontrivial=bool(nontrivial), labels=list(labels), info=info)

    @staticmethod
    def fail(bucket, msg, labels=(), nontrivial=True, **info):
        return Outcome(status="fail", bucket=str(bucket), msg=str(msg), nontrivial=bool(nontrivial),
                       labels=list(labels), info=info)

    @staticmethod
    def inconclusive(reason, labels=(), **info):
        return Outcome(status="inconclusive", reason=str(reason), nontrivial=False, labels=list(labels), info=info)


class SubCheck:
    """One generator + oracle pair of a property.

    strategy(tier) -> hypothesis strategy of JSON-able case dicts   (or None)
    enumerate(tier) -> iterable of case dicts (exhaustive sub-domain) (or None)
    oracle(case) -> Outcome
    budget = {"quick": n_cases, "thorough": n_cases}  (total over all shards)
    shards = {"quick": k, "thorough": k}  number of independent worker tasks
    """

    name = "sub"
    budget = {"quick": 100, "thorough": 1000}
    shards = {"quick": 16, "thorough": 16}
    weight = 1.0  # relative cost hint for scheduling (heavier first)
    watchdog_s = {"quick": 1500, "thorough": 4 * 3600}
    stateful = False

    def strategy(self, tier):
        return None

    def enumerate(self, tier):
        return None

    def oracle(self, case):
        raise NotImplementedError

    def simplify(self, case):
        """yield simpler candidate cases (structured minimiser); default none"""
        return ()


def _canon(o):
    if isinstance(o, float):
        if math.isnan(o):
            return "nan"
        return repr(o)
    if isinstance(o, dict):
        return {str(k): _canon(v) for k, v in sorted(o.items(), key=lambda kv: str(kv[0]))}
    if isinstance(o, (list, tuple)):
        return [_canon(v) for v in o]
    return o


def case_hash(case):
    s = json.dumps(_canon(case), sort_keys=True, separators=(",", ":"))
    return hashlib.sha1(s.encode()).hexdigest()[:16]


def mix_seed(*ints):
    """deterministic, hash()-free seed mixing"""
    x = 0x9E3779B97F4A7C15
    for i in ints:
        x ^= (int(i) + 0x9E3779B97F4A7C15 + ((x << 6) & 0xFFFFFFFFFFFFFFFF) + (x >> 2)) & 0xFFFFFFFFFFFFFFFF
        x = (x * 0xBF58476D1CE4E5B9) & 0xFFFFFFFFFFFFFFFF
        x ^= x >> 31
    return x & 0x7FFFFFFF


def jsonable(o):
    """convert numpy/torch scalars & arrays to plain python for json"""
    try:
        import numpy as np
    except Exception:  # pragma: no cover
        np = None
    if isinstance(o, dict):
        return {str(k): jsonable(v) for k, v in o.items()}
    if isinstance(o, (list, tuple, set)):
        return [jsonable(v) for v in o]
    if np is not None:
        if isinstance(o, np.generic):
            return o.item()
        if isinstance(o, np.ndarray):
            return o.tolist()
    try:
        import torch

        if torch.is_tensor(o):
            return o.detach().cpu().tolist()
    except Exception:  # pragma: no cover
        pass
    if isinstance(o, float):
        if math.isnan(o) or math.isinf(o):
            return repr(o)
    return o
