"""Thin, silent wrappers around PYSEQM's public API (Molecule, Electronic_Structure, MD classes)."""
import contextlib
import io
import os
import sys
from types import SimpleNamespace

import numpy as np

from . import init_torch

torch = init_torch(1)

from seqm.ElectronicStructure import Electronic_Structure  # noqa: E402
from seqm.Molecule import Molecule  # noqa: E402
from seqm.seqm_functions.constants import Constants  # noqa: E402


@contextlib.contextmanager
def silence():
    buf = io.StringIO()
    with contextlib.redirect_stdout(buf):
        yield buf


def settings(method="AM1", eps=1e-9, conv=(1,), sp2=(False,), uhf=False, extra=None):
    sp = {"method": method, "scf_eps": float(eps), "scf_converger": list(conv), "sp2": list(sp2)}
    if uhf:
        sp["UHF"] = True
    if extra:
        for k, v in extra.items():
            sp[k] = dict(v) if isinstance(v, dict) else (list(v) if isinstance(v, (list, tuple)) else v)
    return sp


def as_batch(species, coords):
    sp = torch.as_tensor(np.asarray(species), dtype=torch.int64)
    xy = torch.as_tensor(np.asarray(coords, dtype=float), dtype=torch.float64).clone()
    if sp.dim() == 1:
        sp = sp.unsqueeze(0)
        xy = xy.unsqueeze(0)
    return sp, xy


def pad_batch(mols, width=None, pad_xyz=None):
    """mols: list of (Z list, xyz array). returns species [B,width], coords [B,width,3] zero padded"""
    n = max(len(z) for z, _ in mols)
    width = max(width or 0, n)
    S = np.zeros((len(mols), width), dtype=np.int64)
    X = np.zeros((len(mols), width, 3))
    for b, (z, x) in enumerate(mols):
        S[b, : len(z)] = z
        X[b, : len(z)] = x
        if pad_xyz is not None:
            X[b, len(z):] = np.asarray(pad_xyz[b], dtype=float)[: width - len(z)]
    return S, X


def run_sp(species, coords, method="AM1", eps=1e-9, conv=(1,), sp2=(False,), charges=0, mult=1, uhf=False, extra=None,
           P0=None, learned=None, es_kwargs=None, sp_dict=None):
    """one Electronic_Structure call. Returns namespace(mol, es, sp, out) ; raises whatever seqm raises."""
    sp = sp_dict if sp_dict is not None else settings(method, eps, conv, sp2, uhf, extra)
    S, X = as_batch(species, coords)
    if not torch.is_tensor(charges) and not isinstance(charges, (int, float)):
        charges = torch.as_tensor(np.asarray(charges))
    if not torch.is_tensor(mult) and not isinstance(mult, (int, float)):
        mult = torch.as_tensor(np.asarray(mult))
    guard = contextlib.nullcontext()
    if sp.get("sp2", [False])[0]:
        from .monitors import sp2_monitor

        guard = sp2_monitor()  # SP2's purification loop has no iteration cap (C03): never hang a worker
    with silence() as buf, guard:
        const = Constants()
        kw = {}
        if learned is not None:
            kw["learned_parameters"] = learned
        mol = Molecule(const, sp, X, S, charges=charges, mult=mult, **kw)
        es = Electronic_Structure(sp)
        es(mol, P0=P0, **kw, **(es_kwargs or {}))
    return SimpleNamespace(mol=mol, es=es, sp=sp, out=buf.getvalue(), S=S, X=X)


def notconv(r):
    nc = r.es.notconverged
    return nc.detach().cpu().numpy().astype(bool) if torch.is_tensor(nc) else np.asarray(nc, dtype=bool)


def tonp(t):
    if t is None:
        return None
    if torch.is_tensor(t):
        return t.detach().cpu().numpy().copy()
    return np.asarray(t)


def summary(r, b=0):
    """plain numbers of molecule b of a run (for differential oracles)"""
    m = r.mol
    n = int((r.S[b] > 0).sum())
    d = dict(Etot=float(m.Etot[b]), Eelec=float(m.Eelec[b]), Enuc=float(m.Enuc[b]), Hf=float(m.Hf[b]),
             force=tonp(m.force[b])[:n], q=tonp(m.q[b])[:n], notconverged=bool(notconv(r)[b]))
    if m.dipole is not None and torch.is_tensor(m.dipole):
        d["dipole"] = tonp(m.dipole[b])
    e = tonp(m.e_mo[b]) if m.e_mo is not None else None
    d["e_mo"] = e
    d["gap"] = tonp(m.e_gap[b]) if m.e_gap is not None and torch.is_tensor(m.e_gap) and m.e_gap.numel() else None
    if m.cis_energies is not None:
        d["cis"] = tonp(m.cis_energies[b])
    return d


def norb_real(Z, method="AM1"):
    """number of real basis functions for the species list (sp basis; PM6 d handled by caller)"""
    return sum(1 if z == 1 else 4 for z in Z if z > 0)
