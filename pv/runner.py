"""Parent process of a check: builds tasks, runs them on up to 16 single-threaded workers, merges the
results, applies known_findings.json, writes evidence/<id>.json and replay files, sets the exit code.

usage: python -m pv.runner <ID> quick|thorough
       python -m pv.runner <ID> --replay <file.json>
exit: 0 held (KNOWN-FINDING lines allowed) | 1 VIOLATION | 2 harness error / inconclusive
"""
import glob
import json
import os
import shutil
import subprocess
import sys
import tempfile
import time

from . import VERIF_ROOT, core
from .worker import load_property

W = min(16, os.cpu_count() or 1)


def load_known(pid):
    path = os.path.join(VERIF_ROOT, "known_findings.json")
    if not os.path.exists(path):
        return [], []
    kf = json.load(open(path))
    open_ = [f for f in kf.get("findings", []) if f["property"] == pid and f.get("status", "open") == "open"]
    fixed = [f for f in kf.get("fixed", []) if f["property"] == pid]
    return open_, fixed


def load_replay(path):
    d = json.load(open(path))
    d["path"] = os.path.relpath(os.path.abspath(path), VERIF_ROOT)
    return d


def run_tasks(tasks, scratch, log):
    """tasks: list of dict (with 'watchdog_s', 'weight'); returns list of results (same order)"""
    pending = sorted(range(len(tasks)), key=lambda i: -tasks[i].get("weight", 1.0))
    running = {}
    results = [None] * len(tasks)
    env = dict(os.environ)
    env["PYTHONPATH"] = VERIF_ROOT + os.pathsep + env.get("PYTHONPATH", "")
    env.setdefault("PYTHONHASHSEED", "0")
    env["OMP_NUM_THREADS"] = "1"
    env["MKL_NUM_THREADS"] = "1"
    while pending or running:
        while pending and len(running) < W:
            i = pending.pop(0)
            tf = os.path.join(scratch, f"task{i}.json")
            rf = os.path.join(scratch, f"res{i}.json")
            json.dump(tasks[i], open(tf, "w"))
            lf = open(os.path.join(scratch, f"log{i}.txt"), "w")
            wd = os.path.join(scratch, f"wd{i}")
            os.makedirs(wd, exist_ok=True)
            p = subprocess.Popen([sys.executable, "-m", "pv.worker", tf, rf], stdout=lf, stderr=subprocess.STDOUT,
                                 env=env, cwd=wd)
            running[i] = (p, time.time(), rf, lf)
        time.sleep(0.05)
        for i in list(running):
            p, t0, rf, lf = running[i]
            rc = p.poll()
            if rc is None:
                if time.time() - t0 > tasks[i].get("watchdog_s", 3600):
                    p.kill()
                    p.wait()
                    results[i] = {"task": tasks[i], "ok": False, "error": "watchdog: task exceeded %ss" % tasks[i].get("watchdog_s"), "watchdog": True}
                    lf.close()
                    del running[i]
                continue
            lf.close()
            if os.path.exists(rf):
                results[i] = json.load(open(rf))
            else:
                tail = open(os.path.join(scratch, f"log{i}.txt")).read()[-3000:]
                results[i] = {"task": tasks[i], "ok": False, "error": f"worker exited rc={rc} without result\n{tail}"}
            del running[i]
    return results


def build_tasks(mod, pid, tier, seed, exclusion):
    tasks = []
    # 1. committed replay corpus (top-level files only)
    corpus = sorted(glob.glob(os.path.join(VERIF_ROOT, "replays", pid, "*.json")))
    by_sub = {}
    for path in corpus:
        d = load_replay(path)
        by_sub.setdefault(d["sub"], []).append({"case": d["case"], "path": d["path"], "bucket": d.get("bucket")})
    for sname, cases in by_sub.items():
        chunk = max(1, (len(cases) + W - 1) // W)
        for k in range(0, len(cases), chunk):
            tasks.append(dict(property=pid, sub=sname, mode="replay", tier=tier, cases=cases[k:k + chunk], exclusion=[],
                              weight=0.5, watchdog_s=1800))
    # 2/3. enumerations and generated shards
    for si, sub in enumerate(mod.SUBCHECKS):
        if tier not in sub.budget and sub.enumerate(tier) is None:
            continue
        ns = sub.shards.get(tier, W)
        if sub.enumerate(tier) is not None:
            for sh in range(ns):
                tasks.append(dict(property=pid, sub=sub.name, mode="enumerate", tier=tier, shard=sh, nshards=ns,
                                  exclusion=exclusion, weight=sub.weight, watchdog_s=sub.watchdog_s[tier]))
        if sub.strategy(tier) is not None or getattr(sub, "stateful", False):
            total = sub.budget.get(tier, 0)
            if total <= 0:
                continue
            ns = min(ns, total)
            per = [total // ns + (1 if k < total % ns else 0) for k in range(ns)]
            for sh in range(ns):
                tasks.append(dict(property=pid, sub=sub.name, mode="hypothesis", tier=tier, n=per[sh],
                                  seed=core.mix_seed(seed, si, sh), shard=sh, exclusion=exclusion,
                                  shrink=(tier == "thorough"), weight=sub.weight, watchdog_s=sub.watchdog_s[tier]))
    return tasks


def slug(s):
    return "".join(c if c.isalnum() or c in "-_." else "_" for c in s)[:60]


def main(argv):
    if len(argv) < 3:
        print(__doc__)
        return 2
    pid = argv[1].upper()
    t0 = time.time()
    seed = int(os.environ.get("VERIF_SEED", "1") or 1)
    mod = load_property(pid)
    known_open, known_fixed = load_known(pid)
    known_buckets = {f["bucket"]: f for f in known_open}
    exclusion = sorted(known_buckets)

    scratch = tempfile.mkdtemp(prefix=f"pv_{pid}_")
    try:
        if argv[2] == "--replay":
            d = load_replay(argv[3])
            tasks = [dict(property=pid, sub=d["sub"], mode="replay", tier="quick", cases=[{"case": d["case"], "path": d["path"]}],
                          exclusion=[], weight=1, watchdog_s=3600)]
            res = run_tasks(tasks, scratch, None)[0]
            if not res.get("ok"):
                print("HARNESS-ERROR", res.get("error"))
                return 2
            rc = 0
            for f in res["failures"]:
                b = f["outcome"].get("bucket")
                if b in known_buckets:
                    print(f"KNOWN-FINDING: property={pid} {known_buckets[b]['what']}")
                else:
                    print(f"VIOLATION property={pid} replay={d['path']}")
                    print("  bucket:", b, "|", f["outcome"].get("msg"))
                    rc = 1
            if rc == 0 and not res["failures"]:
                if res.get("inconclusive"):
                    print(f"replay inconclusive ({', '.join(res['inconclusive'])}): {d['path']}")
                else:
                    print(f"replay passed: {d['path']}")
            return rc

        tier = argv[2]
        assert tier in ("quick", "thorough"), tier
        tasks = build_tasks(mod, pid, tier, seed, exclusion)
        results = run_tasks(tasks, scratch, None)
    finally:
        shutil.rmtree(scratch, ignore_errors=True)

    errors = [r for r in results if not r.get("ok")]
    evaluations = 0
    nontrivial = set()
    labels, inconclusive, excluded = {}, {}, {}
    per_sub = {}
    samples = []
    failures = []
    max_info = {}
    max_case = {}
    for r in results:
        if not r.get("ok"):
            continue
        t = r["task"]
        ps = per_sub.setdefault(t["sub"], {"evaluations": 0, "distinct_nontrivial": set(), "modes": set(), "wall_s": 0.0})
        ps["evaluations"] += r["evaluations"]
        ps["distinct_nontrivial"].update(r["nontrivial"])
        ps["modes"].add(t["mode"])
        ps["wall_s"] += r.get("wall_s", 0)
        evaluations += r["evaluations"]
        nontrivial.update((t["sub"], h) for h in r["nontrivial"])
        for k, v in r["labels"].items():
            labels[k] = labels.get(k, 0) + v
        for k, v in r["inconclusive"].items():
            inconclusive[k] = inconclusive.get(k, 0) + v
        for k, v in r["excluded_hits"].items():
            excluded[k] = excluded.get(k, 0) + v
        for k, v in r.get("max_info", {}).items():
            kk = f"{t['sub']}.{k}"
            if kk not in max_info or abs(v) > abs(max_info[kk]):
                max_info[kk] = v
                max_case[kk] = r.get("max_case", {}).get(k)
        if r["samples"] and len(samples) < 12 and (t["mode"] != "hypothesis" or t.get("shard", 0) in (0, 1)):
            for s in r["samples"][:3]:
                s = dict(s)
                s["sub"] = t["sub"]
                samples.append(s)
        for f in r["failures"]:
            f["sub"] = t["sub"]
            failures.append(f)

    # classify failures
    rc = 0
    lines = []
    known_hit = {}
    viol = {}
    for f in failures:
        b = f["outcome"].get("bucket", "?")
        if b in known_buckets:
            known_hit[b] = known_hit.get(b, 0) + 1
            continue
        key = (f["sub"], b)
        size = len(json.dumps(f["case"]))
        if key not in viol or size < viol[key][0]:
            viol[key] = (size, f)
    for b, n in excluded.items():
        if b in known_buckets:
            known_hit[b] = known_hit.get(b, 0) + n
    for b in sorted(known_hit):
        lines.append(f"KNOWN-FINDING: property={pid} {known_buckets[b]['what']} [bucket={b} hits={known_hit[b]}]")
    viol_samples = []
    for (sname, b), (_, f) in sorted(viol.items()):
        rc = 1
        if f.get("replay_of"):
            path = f["replay_of"]
        else:
            d = os.path.join(VERIF_ROOT, "replays", pid, "found")
            os.makedirs(d, exist_ok=True)
            path = os.path.join(d, f"{slug(sname)}-{slug(b)}-{core.case_hash(f['case'])}.json")
            json.dump({"property": pid, "sub": sname, "case": f["case"], "bucket": b, "msg": f["outcome"].get("msg"),
                       "info": f["outcome"].get("info"), "seed": seed, "tier": tier}, open(path, "w"), indent=1)
            path = os.path.relpath(path, VERIF_ROOT)
        lines.append(f"VIOLATION property={pid} replay={path}")
        lines.append(f"  sub={sname} bucket={b} | {f['outcome'].get('msg')}")
        viol_samples.append({"sub": sname, "bucket": b, "case": f["case"], "msg": f["outcome"].get("msg"), "replay": path})

    if errors:
        for e in errors[:5]:
            lines.append("HARNESS-ERROR task=%s/%s: %s" % (e["task"]["sub"], e["task"]["mode"], (e.get("error") or "")[-1500:]))
        if rc == 0:
            rc = 2

    for ps in per_sub.values():
        ps["distinct_nontrivial"] = len(ps["distinct_nontrivial"])
        ps["modes"] = sorted(ps["modes"])
        ps["wall_s"] = round(ps["wall_s"], 1)
    exhaustive_subdomains = [s.name for s in mod.SUBCHECKS if s.enumerate(tier) is not None]
    ev = {
        "property_id": pid, "tier": tier, "seed": seed, "level": getattr(mod, "LEVEL", "exploration"),
        "coverage": {
            "evaluations": evaluations, "distinct_nontrivial": len(nontrivial), "rule": mod.RULE,
            "samples": (viol_samples + samples)[:14], "classes": dict(sorted(labels.items())),
            "per_subcheck": per_sub, "excluded_by_bucket": excluded, "known_finding_hits": known_hit,
            "inconclusive": inconclusive, "exhaustive": False, "exhaustive_subdomains": exhaustive_subdomains,
            "largest_observed": {k: max_info[k] for k in sorted(max_info)},
            "largest_observed_cases": {k: max_case.get(k) for k in sorted(max_info)},
            "workers": W, "tasks": len(tasks), "harness_errors": len(errors),
        },
        "assumptions": list(getattr(mod, "ASSUMPTIONS", [])),
        "wall_s": round(time.time() - t0, 2),
        "violations": len(viol),
    }
    os.makedirs(os.path.join(VERIF_ROOT, "evidence"), exist_ok=True)
    evp = os.path.join(VERIF_ROOT, "evidence", f"{pid}.json")
    with open(evp + ".tmp", "w") as fh:
        json.dump(core.jsonable(ev), fh, indent=1)
    os.replace(evp + ".tmp", evp)
    for ln in lines:
        print(ln)
    print(f"[{pid} {tier} seed={seed}] evaluations={evaluations} distinct_nontrivial={len(nontrivial)} "
          f"violations={len(viol)} known={len(known_hit)} errors={len(errors)} wall={ev['wall_s']}s")
    return rc


if __name__ == "__main__":
    sys.exit(main(sys.argv))
