"""Crash/resume fault harness (DESIGN 1.5 "Fault harness", used by C10).

Every run segment (reference, crashing run, resumed run) executes in a forked child of the worker, so the worker itself
never runs a seqm calculation and every child starts from the same post-import state. A child dies the way a real
process dies:

  hard  os._exit(137) at the crash point: no `finally`, no atexit, user-space buffers (the XYZ writer's 1 MB buffer,
        HDF5's chunk and metadata caches) are lost -- the deterministic equivalent of SIGKILL / power loss at that instant
  soft  a BaseException subclass raised at the crash point: `finally` blocks run, writers are closed -- models
        KeyboardInterrupt / SIGTERM-with-handler (the repository's own resume test crashes this way)
  torn  inside torch.save: the first `frac` of the serialised bytes reach the destination file, then os._exit(137)

Crash points are addressed deterministically:

  {"kind": "line", "n": N}                          the N-th 'line' event executed in seqm/MolecularDynamics.py or
                                                    seqm/NonadiabaticDynamics.py (sys.settrace), i.e. any statement
                                                    boundary of the run loop, the writers, the checkpoint writer/loader
  {"kind": "func", "func": f, "occ": k, "line": j}  the j-th line event inside the k-th invocation of function f
  {"kind": "torn", "occ": k, "frac": x}             the k-th torch.save call

A wall-clock SIGKILL lands between two such statement boundaries or inside a C call; the C calls that touch the files
are the h5py dataset writes (one statement each, so "before" and "after" are both crash points) and torch.save (torn).
"""
import json
import os
import signal
import sys
import time
import traceback

TRACED = ("seqm/MolecularDynamics.py", "seqm/NonadiabaticDynamics.py")


class SoftCrash(BaseException):
    pass


class _Tracer:
    def __init__(self, plan, notes):
        self.plan = plan or {}
        self.notes = notes
        self.count = 0
        self.occ = {}
        self.inner = {}      # id(frame) -> line counter of the targeted invocation
        self.fired = False

    def _fire(self, frame):
        self.fired = True
        self.notes["crash_at"] = "%s:%d" % (frame.f_code.co_name, frame.f_lineno)
        self.notes["events_before_crash"] = self.count
        _write_notes(self.notes)
        if self.plan.get("mode") == "soft":
            sys.settrace(None)
            raise SoftCrash()
        os._exit(137)

    def glob(self, frame, event, arg):
        if not frame.f_code.co_filename.endswith(TRACED):
            return None
        if event == "call" and self.plan.get("kind") == "func" and frame.f_code.co_name == self.plan["func"]:
            k = self.occ.get("n", 0) + 1
            self.occ["n"] = k
            if k == self.plan["occ"]:
                self.inner[id(frame)] = 0
        return self.local

    def local(self, frame, event, arg):
        if event == "line":
            self.count += 1
            if not self.fired:
                if self.plan.get("kind") == "line" and self.count == self.plan["n"]:
                    self._fire(frame)
                elif self.inner and id(frame) in self.inner:
                    self.inner[id(frame)] += 1
                    if self.inner[id(frame)] == self.plan["line"]:
                        self._fire(frame)
        elif event == "return" and self.inner:
            self.inner.pop(id(frame), None)
        return self.local


_NOTES_PATH = [None]


def _write_notes(notes):
    if _NOTES_PATH[0]:
        with open(_NOTES_PATH[0], "w") as f:
            json.dump(notes, f)
            f.flush()
            os.fsync(f.fileno())


def _install_torn(plan, notes):
    import io

    import torch

    orig = torch.save
    n = [0]

    def torn_save(obj, f, *a, **k):
        n[0] += 1
        if n[0] != plan["occ"]:
            return orig(obj, f, *a, **k)
        buf = io.BytesIO()
        orig(obj, buf, *a, **k)
        data = buf.getvalue()
        cut = int(len(data) * plan["frac"])
        notes["crash_at"] = "torch.save:%d/%d bytes -> %s" % (cut, len(data), os.path.basename(str(f)))
        _write_notes(notes)
        with open(f, "wb") as fh:
            fh.write(data[:cut])
            fh.flush()
            os.fsync(fh.fileno())
        os._exit(137)

    torch.save = torn_save


def run_segment(body, plan, notes_path, err_path, timeout=600.0):
    """fork; in the child install the crash plan, call body(), exit. Returns (code, notes) with code 0 finished,
    3 soft crash, 137 hard crash, 98 python exception (traceback in err_path), -1 watchdog"""
    sys.stdout.flush()
    sys.stderr.flush()
    pid = os.fork()
    if pid == 0:
        code = 98
        try:
            _NOTES_PATH[0] = notes_path
            notes = {}
            dn = os.open(os.devnull, os.O_WRONLY)
            os.dup2(dn, 1)
            sys.stdout = open(os.devnull, "w")
            tracer = _Tracer(plan if plan and plan.get("kind") in ("line", "func") else None, notes)
            if plan and plan.get("kind") == "torn":
                _install_torn(plan, notes)
            sys.settrace(tracer.glob)
            try:
                body()
                code = 0
            except SoftCrash:
                code = 3
            finally:
                sys.settrace(None)
            notes["events_total"] = tracer.count
            notes.setdefault("crash_at", None)
            _write_notes(notes)
        except BaseException:
            try:
                with open(err_path, "w") as f:
                    f.write(traceback.format_exc())
            except Exception:
                pass
            code = 98
        finally:
            os._exit(code)
    t0 = time.time()
    while True:
        wpid, status = os.waitpid(pid, os.WNOHANG)
        if wpid:
            break
        if time.time() - t0 > timeout:
            os.kill(pid, signal.SIGKILL)
            os.waitpid(pid, 0)
            return -1, {}
        time.sleep(0.002)
    code = os.WEXITSTATUS(status) if os.WIFEXITED(status) else 128 + os.WTERMSIG(status)
    notes = {}
    if os.path.exists(notes_path):
        try:
            notes = json.load(open(notes_path))
        except Exception:
            notes = {}
        os.remove(notes_path)
    return code, notes
