"""Finite-difference utilities with the three-step consistency filter (DESIGN 1.5)."""
import numpy as np

HS = (1e-3, 5e-4, 2.5e-4)


def stencil_points(hs=HS):
    pts = set()
    for h in hs:
        for k in (-2, -1, 1, 2):
            pts.add(round(k * h, 12))
    return sorted(pts)


def directional(energy, hs=HS):
    """energy(s) -> float for displacement s along the line. returns {h: 4-point O(h^4) derivative dE/ds at s=0}"""
    cache = {}

    def E(s):
        s = round(s, 12)
        if s not in cache:
            cache[s] = energy(s)
        return cache[s]

    out = {}
    interp = {}
    for h in hs:
        vals = [E(-2 * h), E(-h), E(h), E(2 * h)]
        if any(v is None for v in vals):
            return None
        out[h] = (vals[0] - 8 * vals[1] + 8 * vals[2] - vals[3]) / (12 * h)
        # 4th-order interpolant of the stencil at s=0 (error O(h^4 * fourth derivative)): used by branch_switch()
        interp[h] = (-vals[0] + 4 * vals[1] + 4 * vals[2] - vals[3]) / 6.0
    out["_interp"] = interp
    return out


def branch_switch(fd, E0, tol=1e-6):
    """True if the energy returned at the centre point is not on the same smooth branch as the stencil energies.

    SCF can have several stationary solutions (stretched open shells); the centre run and the displaced runs may
    converge to different ones. The three FD slopes are then mutually consistent (all on the other branch) yet are not
    the derivative of the branch the force belongs to. The test uses energies only -- never the force -- so it cannot
    hide a gradient error; it only recognises that 'the derivative of the returned energy' is undefined here."""
    h = min(fd["_interp"])
    return abs(fd["_interp"][h] - E0) > tol


def judge(fd, analytic, tol, consistency=0.35):
    """compare analytic slope with the FD slopes of three step sizes.
    returns ('ok', err) | ('fail', err) | ('nonsmooth', err)
    A real gradient error is independent of h: the three discrepancies agree with each other. A stencil that straddles
    a tiny discontinuity of the energy surface gives discrepancies that scale like 1/h: not consistent -> 'nonsmooth'."""
    hs = sorted((h for h in fd if not isinstance(h, str)), reverse=True)
    errs = np.array([fd[h] - analytic for h in hs])
    a = np.abs(errs)
    if a.max() <= tol:
        return "ok", float(a.max())
    if a.min() <= tol:
        # at least one step size agrees within tolerance: noise of the others, not a consistent error
        return "nonsmooth", float(a.max())
    if (np.sign(errs) == np.sign(errs[0])).all() and (a.max() - a.min()) <= consistency * a.max():
        return "fail", float(a.min())
    return "nonsmooth", float(a.max())
