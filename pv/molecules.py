"""Template library of near-equilibrium molecules, ions and radicals (DESIGN 1.5)."""
import math, numpy as np
SYM={1:"H",3:"Li",4:"Be",5:"B",6:"C",7:"N",8:"O",9:"F",11:"Na",12:"Mg",13:"Al",14:"Si",15:"P",16:"S",17:"Cl"}
def _sort(atoms):
    atoms=sorted(atoms,key=lambda a:-a[0])  # stable
    return [a[0] for a in atoms],[list(map(float,a[1])) for a in atoms]
def diatomic(A,B,r): return _sort([(A,(0,0,0)),(B,(r,0,0))])
def linear3(A,B,C,r1,r2): return _sort([(A,(-r1,0,0)),(B,(0,0,0)),(C,(r2,0,0))])
def bent(A,X,Y,r1,r2,th):
    t=math.radians(th); return _sort([(A,(0,0,0)),(X,(r1,0,0)),(Y,(r2*math.cos(t),r2*math.sin(t),0))])
def pyramid(A,X,r,th):   # th = X-A-X angle
    t=math.radians(th); c=math.cos(t)
    # three X on a cone: positions r*(sin b cos phi, sin b sin phi, cos b), angle between them th: cos th = sin^2 b cos120 + cos^2 b
    cb2=(c+0.5)/1.5; cb=math.sqrt(max(cb2,0)); sb=math.sqrt(1-cb2)
    return _sort([(A,(0,0,0))]+[(X,(r*sb*math.cos(p),r*sb*math.sin(p),-r*cb)) for p in (0,2*math.pi/3,4*math.pi/3)])
def planar3(A,X,r): return _sort([(A,(0,0,0))]+[(X,(r*math.cos(p),r*math.sin(p),0)) for p in (0,2*math.pi/3,4*math.pi/3)])
def tetra(A,X,r,Y=None,ry=None):
    d=[(1,1,1),(-1,-1,1),(-1,1,-1),(1,-1,-1)]
    at=[(A,(0,0,0))]
    for i,v in enumerate(d):
        v=np.array(v)/math.sqrt(3)
        if i==0 and Y is not None: at.append((Y,tuple(v*ry)))
        else: at.append((X,tuple(v*r)))
    return _sort(at)
def xyzmol(lst): return _sort(lst)
T={}
T["H2"]=diatomic(1,1,0.74); T["LiH"]=diatomic(3,1,1.60); T["HF"]=diatomic(9,1,0.92); T["HCl"]=diatomic(17,1,1.28); T["NaH"]=diatomic(11,1,1.89)
T["N2"]=diatomic(7,7,1.10); T["CO"]=diatomic(8,6,1.13); T["F2"]=diatomic(9,9,1.41); T["Cl2"]=diatomic(17,17,1.99); T["LiF"]=diatomic(9,3,1.56)
T["NaCl"]=diatomic(17,11,2.36); T["AlCl"]=diatomic(17,13,2.13); T["ClF"]=diatomic(17,9,1.63); T["P2"]=diatomic(15,15,1.89); T["SiO"]=diatomic(14,8,1.51)
T["CS"]=diatomic(16,6,1.53); T["PN"]=diatomic(15,7,1.49); T["BF"]=diatomic(9,5,1.26); T["AlF"]=diatomic(13,9,1.65); T["NaF"]=diatomic(11,9,1.93); T["LiCl"]=diatomic(17,3,2.02)
T["BeH2"]=linear3(1,4,1,1.33,1.33); T["MgH2"]=linear3(1,12,1,1.70,1.70); T["CO2"]=linear3(8,6,8,1.16,1.16); T["CS2"]=linear3(16,6,16,1.55,1.55); T["OCS"]=linear3(8,6,16,1.16,1.56)
T["HCN"]=linear3(1,6,7,1.07,1.15); T["BeF2"]=linear3(9,4,9,1.37,1.37); T["MgCl2"]=linear3(17,12,17,2.18,2.18)
T["H2O"]=bent(8,1,1,0.96,0.96,104.5); T["H2S"]=bent(16,1,1,1.34,1.34,92.1); T["SO2"]=bent(16,8,8,1.43,1.43,119.5); T["SCl2"]=bent(16,17,17,2.01,2.01,103.0)
T["HOCl"]=bent(8,1,17,0.96,1.69,102.5); T["HOF"]=bent(8,1,9,0.97,1.44,97.0); T["O3"]=bent(8,8,8,1.27,1.27,116.8); T["OF2"]=bent(8,9,9,1.41,1.41,103.0); T["H2Si"]=bent(14,1,1,1.52,1.52,92.0)
T["NH3"]=pyramid(7,1,1.01,106.7); T["PH3"]=pyramid(15,1,1.42,93.3); T["NF3"]=pyramid(7,9,1.37,102.4); T["PCl3"]=pyramid(15,17,2.04,100.3); T["PF3"]=pyramid(15,9,1.57,97.8)
T["BH3"]=planar3(5,1,1.19); T["AlH3"]=planar3(13,1,1.58); T["BF3"]=planar3(5,9,1.31); T["AlCl3"]=planar3(13,17,2.06); T["SO3"]=planar3(16,8,1.42)
T["CH4"]=tetra(6,1,1.09); T["SiH4"]=tetra(14,1,1.48); T["CH3F"]=tetra(6,1,1.09,9,1.38); T["CH3Cl"]=tetra(6,1,1.09,17,1.78); T["SiH3Cl"]=tetra(14,1,1.48,17,2.05); T["SiH3F"]=tetra(14,1,1.48,9,1.59)
T["CF4"]=tetra(6,9,1.32); T["CH3Li"]=tetra(6,1,1.10,3,2.00)
T["H2CO"]=xyzmol([(8,(0,0,0)),(6,(1.21,0,0)),(1,(1.80,0.94,0)),(1,(1.80,-0.94,0))])
T["C2H2"]=xyzmol([(6,(0,0,0)),(6,(1.20,0,0)),(1,(-1.06,0,0)),(1,(2.26,0,0))])
T["C2H4"]=xyzmol([(6,(0,0,0)),(6,(1.33,0,0)),(1,(-0.56,0.93,0)),(1,(-0.56,-0.93,0)),(1,(1.89,0.93,0)),(1,(1.89,-0.93,0))])
T["C2H6"]=xyzmol([(6,(0,0,0)),(6,(1.53,0,0)),(1,(-0.36,1.03,0)),(1,(-0.36,-0.51,0.89)),(1,(-0.36,-0.51,-0.89)),(1,(1.89,-1.03,0)),(1,(1.89,0.51,0.89)),(1,(1.89,0.51,-0.89))])
T["CH3OH"]=xyzmol([(8,(0,0,0)),(6,(1.42,0,0)),(1,(-0.30,0.91,0)),(1,(1.78,-1.03,0)),(1,(1.78,0.51,0.89)),(1,(1.78,0.51,-0.89))])
T["H2O2"]=xyzmol([(8,(0,0,0)),(8,(1.45,0,0)),(1,(-0.24,0.65,0.66)),(1,(1.69,0.65,-0.66))])
T["N2H4"]=xyzmol([(7,(0,0,0)),(7,(1.45,0,0)),(1,(-0.35,0.95,0.0)),(1,(-0.35,-0.3,0.9)),(1,(1.80,0.3,0.9)),(1,(1.80,-0.95,0.0))])
T["CH3SH"]=xyzmol([(16,(0,0,0)),(6,(1.82,0,0)),(1,(-0.10,1.33,0)),(1,(2.18,-1.03,0)),(1,(2.18,0.51,0.89)),(1,(2.18,0.51,-0.89))])
T["HCOOH"]=xyzmol([(6,(0,0,0)),(8,(1.20,0.1,0)),(8,(-0.75,1.10,0)),(1,(-0.55,-0.95,0)),(1,(-0.15,1.85,0))])
T["NH2OH"]=xyzmol([(7,(0,0,0)),(8,(1.45,0,0)),(1,(-0.33,0.95,0.1)),(1,(-0.33,-0.4,0.88)),(1,(1.75,0.5,-0.75))])
T["H2S2"]=xyzmol([(16,(0,0,0)),(16,(2.06,0,0)),(1,(-0.05,0.9,0.98)),(1,(2.11,0.9,-0.98))])
T["P2H4"]=xyzmol([(15,(0,0,0)),(15,(2.22,0,0)),(1,(-0.2,1.38,0.2)),(1,(-0.2,-0.4,1.35)),(1,(2.42,0.4,1.35)),(1,(2.42,-1.38,0.2))])
T["Si2H6"]=xyzmol([(14,(0,0,0)),(14,(2.33,0,0)),(1,(-0.5,1.39,0)),(1,(-0.5,-0.70,1.21)),(1,(-0.5,-0.70,-1.21)),(1,(2.83,-1.39,0)),(1,(2.83,0.70,1.21)),(1,(2.83,0.70,-1.21))])
T["CH3NH2"]=xyzmol([(7,(0,0,0)),(6,(1.47,0,0)),(1,(-0.35,0.95,0.05)),(1,(-0.35,-0.45,0.85)),(1,(1.83,-1.03,0)),(1,(1.83,0.51,0.89)),(1,(1.83,0.51,-0.89))])
T["HNO"]=bent(7,1,8,1.06,1.21,108.6)

# ---- ions (closed shell, RHF) and radicals (UHF): (geometry, charge, multiplicity)
IONS = {
    "OH-": (diatomic(8, 1, 0.97), -1), "CN-": (diatomic(7, 6, 1.18), -1), "NH4+": (tetra(7, 1, 1.03), 1),
    "H3O+": (pyramid(8, 1, 0.98, 111.0), 1), "NH2-": (bent(7, 1, 1, 1.03, 1.03, 102.0), -1),
    "FHF-": (linear3(9, 1, 9, 1.14, 1.14), -1), "CH3-": (pyramid(6, 1, 1.10, 105.0), -1),
    "NO+": (diatomic(8, 7, 1.06), 1), "HS-": (diatomic(16, 1, 1.35), -1),
}
RADS = {
    "CH3": (planar3(6, 1, 1.08), 0, 2), "OH": (diatomic(8, 1, 0.97), 0, 2), "NH2": (bent(7, 1, 1, 1.02, 1.02, 103.0), 0, 2),
    "NO": (diatomic(8, 7, 1.15), 0, 2), "O2_t": (diatomic(8, 8, 1.21), 0, 3), "CH2_t": (bent(6, 1, 1, 1.08, 1.08, 134.0), 0, 3),
    "H2O+": (bent(8, 1, 1, 1.0, 1.0, 109.0), 1, 2),
}
POOL = {
    "MNDO": {1, 3, 4, 5, 6, 7, 8, 9, 11, 13, 14, 15, 16, 17},
    "AM1": {1, 4, 5, 6, 7, 8, 9, 13, 14, 15, 16, 17},
    "PM3": {1, 3, 4, 6, 7, 8, 9, 12, 13, 14, 15, 16, 17},
    "PM6_SP": {1, 3, 4, 5, 6, 7, 8, 9, 11, 12, 13, 14, 15, 16, 17},
    "PM6": {1, 3, 4, 5, 6, 7, 8, 9, 11, 12, 13, 14, 15, 16, 17},
}
METHODS_SP = ["MNDO", "AM1", "PM3", "PM6_SP"]

# unified table: name -> dict(Z, xyz, charge, mult)
ALL = {}
for _k, (_z, _x) in T.items():
    ALL[_k] = dict(Z=_z, xyz=_x, charge=0, mult=1)
for _k, ((_z, _x), _q) in IONS.items():
    ALL[_k] = dict(Z=_z, xyz=_x, charge=_q, mult=1)
for _k, ((_z, _x), _q, _m) in RADS.items():
    ALL[_k] = dict(Z=_z, xyz=_x, charge=_q, mult=_m)


def names(method, kinds=("neutral",), max_atoms=99, min_atoms=1):
    """template names whose elements are parametrised for `method`, sorted (deterministic)"""
    out = []
    for k in sorted(ALL):
        m = ALL[k]
        if not set(m["Z"]) <= POOL[method]:
            continue
        kind = "radical" if m["mult"] != 1 else ("ion" if m["charge"] != 0 else "neutral")
        if kind in kinds and min_atoms <= len(m["Z"]) <= max_atoms:
            out.append(k)
    return out


def row(z):
    return 1 if z <= 2 else (2 if z <= 10 else 3)


# Fixed generic orientation applied to every template unless case["orient"] == "template": the templates are laid out
# with bonds on the x axis, which is inside the recorded frame-singularity finding of C02 (forces wrong for bonds along
# +/-x). Properties that are not about orientation work in this generic frame; C02/C01 generate orientations explicitly.
_q0 = np.array([0.8125, 0.3741, -0.2962, 0.3355])
_q0 = _q0 / np.linalg.norm(_q0)
_w, _x, _y, _z = _q0
R_GENERIC = np.array([[1 - 2 * (_y * _y + _z * _z), 2 * (_x * _y - _z * _w), 2 * (_x * _z + _y * _w)],
                      [2 * (_x * _y + _z * _w), 1 - 2 * (_x * _x + _z * _z), 2 * (_y * _z - _x * _w)],
                      [2 * (_x * _z - _y * _w), 2 * (_y * _z + _x * _w), 1 - 2 * (_x * _x + _y * _y)]])


def geometry(case):
    """case: {tpl, amp, disp:[3n floats in [-1,1]] (optional), stretch:[i,j,f] (optional), orient: generic|template}
    -> Z(list), xyz(np.ndarray n x 3). Minimum interatomic distance >= 0.6 A is enforced by construction (the
    displacement is scaled down)."""
    Z, y = _geometry_template_frame(case)
    if case.get("orient", "generic") == "generic":
        y = y @ R_GENERIC.T
    return Z, y


def _geometry_template_frame(case):
    m = ALL[case["tpl"]]
    x0 = np.array(m["xyz"], dtype=float)
    n = len(x0)
    x = x0.copy()
    st = case.get("stretch")
    if st:
        i, j, f = int(st[0]) % n, int(st[1]) % n, float(st[2])
        if i != j:
            x[j] = x[i] + f * (x[j] - x[i])
    d = np.array(case.get("disp") or [0.0] * (3 * n), dtype=float)[: 3 * n]
    if d.size < 3 * n:
        d = np.concatenate([d, np.zeros(3 * n - d.size)])
    d = d.reshape(n, 3) * float(case.get("amp", 0.0))
    s = 1.0
    for _ in range(40):
        y = x + s * d
        if n < 2 or mindist(y) >= 0.6:
            break
        s *= 0.7
    else:
        y = x if mindist(x) >= 0.6 else x0
    return list(m["Z"]), y


def mindist(x):
    n = len(x)
    if n < 2:
        return 9e9
    dm = np.linalg.norm(x[:, None, :] - x[None, :, :], axis=-1) + 1e9 * np.eye(n)
    return float(dm.min())


def pair_classes(Z):
    rows = sorted({row(z) for z in Z})
    out = set()
    for a in Z:
        for b in Z:
            out.add("%d-%d" % (max(row(a), row(b)), min(row(a), row(b))))
    return sorted(out)


VALENCE = {1: 1, 3: 1, 4: 2, 5: 3, 6: 4, 7: 5, 8: 6, 9: 7, 11: 1, 12: 2, 13: 3, 14: 4, 15: 5, 16: 6, 17: 7}


def n_electrons(name):
    m = ALL[name]
    return sum(VALENCE[z] for z in m["Z"]) - m["charge"]


def n_orbitals(name):
    return sum(1 if z == 1 else 4 for z in ALL[name]["Z"])


def n_ov(name):
    """occupied x virtual pairs of the closed-shell sp-basis reference"""
    nocc = n_electrons(name) // 2
    return nocc * (n_orbitals(name) - nocc)


def is_linear(name, tol=1e-6):
    """all atoms of the template on one line (diatomics included): such molecules keep doubly degenerate excited states
    under ANY distortion that keeps them linear, and diatomics are always linear"""
    x = np.array(ALL[name]["xyz"], dtype=float)
    if len(x) <= 2:
        return True
    u = x[1] - x[0]
    u = u / np.linalg.norm(u)
    for k in range(2, len(x)):
        w = x[k] - x[0]
        if np.linalg.norm(w - np.dot(w, u) * u) > tol:
            return False
    return True
