"""Analytic force field used under the REAL MD classes (DESIGN 1.5).

Only the electronic-structure driver is replaced; initialize / one_step / thermostat / _zero_com / run / HDF5Writer /
XYZWriter / save_checkpoint / run_from_checkpoint are the repository's code. The stub is installed by patching the
module-level alias `seqm.MolecularDynamics.esdriver` that every MD constructor calls, so that the object rebuilt by
run_from_checkpoint gets the same stub. Its whole specification travels inside the seqm_parameters dict (key
"_pv_stub"), which the checkpoint carries, so a resumed process reconstructs an identical force field.

Potential: E_b = sum_{i<j real} k/2 (|r_i - r_j| - r0_ij)^2  -- translation and rotation invariant, zero net force and
torque, k = 0 gives free particles. Everything is float64 torch so results are bitwise reproducible.
"""
from types import SimpleNamespace

import numpy as np

from .seqm_api import torch

KEY = "_pv_stub"


class StubES(torch.nn.Module):
    def __init__(self, seqm_parameters, *a, **kw):
        super().__init__()
        spec = seqm_parameters[KEY]
        self.seqm_parameters = seqm_parameters
        self.dummy = torch.nn.Parameter(torch.zeros(1), requires_grad=False)
        self.k = float(spec["k"])
        self.r0 = torch.tensor(spec["r0"], dtype=torch.float64)
        self.real = torch.tensor(spec["species"], dtype=torch.int64) > 0
        self.conservative_force = SimpleNamespace(energy=SimpleNamespace(md=False, excited_states=None))
        self.ncalls = 0

    def forward(self, molecule, *a, **kw):
        self.ncalls += 1
        x = molecule.coordinates.detach().clone().requires_grad_(True)
        d = torch.cdist(x, x)
        n = x.shape[1]
        m = (self.real.unsqueeze(1) & self.real.unsqueeze(2)) & ~torch.eye(n, dtype=torch.bool)
        # each unordered pair appears twice in the symmetric sum -> factor 1/4
        E = (0.25 * self.k * ((d - self.r0) ** 2) * m).sum(dim=(1, 2))
        (g,) = torch.autograd.grad(E.sum(), x)
        F = -g
        F = F * self.real.unsqueeze(-1)
        molecule.force = F.detach()
        molecule.Etot = E.detach()
        # the real driver always leaves a density tensor behind and save_checkpoint/_restore_molecule_from_ckpt rely on
        # that (reuse_P=True calls .to(device) on it); honour the invariant with an inert placeholder
        molecule.dm = torch.zeros(x.shape[0], 1, 1, dtype=torch.float64)
        molecule.dipole = torch.zeros(x.shape[0], 3, dtype=torch.float64)
        molecule.e_gap = torch.zeros(x.shape[0], dtype=torch.float64)
        molecule.q = torch.zeros(x.shape[:2], dtype=torch.float64)
        self.notconverged = torch.zeros(x.shape[0], dtype=torch.bool)


def spec_for(species, coords, k=20.0, stretch=1.0):
    """stub specification for a batch: rest lengths = stretch * distances of the given reference geometry"""
    X = torch.as_tensor(np.asarray(coords, dtype=float), dtype=torch.float64)
    r0 = torch.cdist(X, X) * float(stretch)
    return {"k": float(k), "r0": r0.tolist(), "species": np.asarray(species).tolist()}


_installed = None


def install():
    """patch the alias the MD constructors use; idempotent. Returns the original for uninstall()."""
    global _installed
    import seqm.MolecularDynamics as MDmod

    if _installed is None:
        _installed = MDmod.esdriver

        def factory(seqm_parameters, *a, **kw):
            if isinstance(seqm_parameters, dict) and KEY in seqm_parameters:
                return StubES(seqm_parameters)
            return _installed(seqm_parameters, *a, **kw)

        MDmod.esdriver = factory
    return _installed


def uninstall():
    global _installed
    if _installed is not None:
        import seqm.MolecularDynamics as MDmod

        MDmod.esdriver = _installed
        _installed = None


def energy_of(spec, species, coords):
    """independent NumPy evaluation of the stub potential (used by bookkeeping oracles, shares no torch code path)"""
    X = np.asarray(coords, dtype=float)
    S = np.asarray(species)
    r0 = np.asarray(spec["r0"], dtype=float)
    out = []
    for b in range(X.shape[0]):
        e = 0.0
        idx = [i for i in range(X.shape[1]) if S[b, i] > 0]
        for a, i in enumerate(idx):
            for j in idx[a + 1:]:
                e += 0.5 * spec["k"] * (np.linalg.norm(X[b, i] - X[b, j]) - r0[b, i, j]) ** 2
        out.append(e)
    return np.array(out)
